package main

// Per-path execution state, forking discipline (re-execution from a decision prefix),
// path condition management, findings.

import (
	"fmt"
	"go/token"
	"go/types"
	"math/big"
	"os"
	"sort"
	"strings"

	"golang.org/x/tools/go/ssa"
)

type Decision struct {
	Kind byte   // 'b' branch, 'v' concretised value / choice
	Val  uint64 // branch: 0/1
}

type WorkItem struct {
	prefix []Decision
	model  Model
}

// pathEnd is raised (as a Go panic) to terminate the current path.
type pathEnd struct {
	reason string
}

type unsupportedErr struct {
	msg   string
	stack string
}

// Panic is a Go-level panic of the program under analysis.
type Panic struct {
	val     Value  // the panic value (an *IfaceV)
	kind    string // bounds, nil, typeassert, divzero, explicit, negshift, makeneg, ...
	msg     string
	fnName  string // innermost libOpenflow function on the stack when raised
	fnPkg   string
	srcLine string // trimmed source text of the faulting line
	pos     string // file:line (informational only)
	stack   []string
}

type Finding struct {
	Property string            `json:"property"`
	Harness  string            `json:"harness"`
	Kind     string            `json:"kind"` // panic | assert | loop | alloc | shared-write | alias | ownership | blocked
	Label    string            `json:"label,omitempty"`
	Func     string            `json:"func,omitempty"`
	Fault    string            `json:"fault,omitempty"`
	Src      string            `json:"src,omitempty"`
	Ord      int               `json:"ord,omitempty"`
	Tags     map[string]string `json:"tags,omitempty"`
	Notes    map[string]string `json:"notes,omitempty"`
	Msg      string            `json:"msg,omitempty"`
	Pos      string            `json:"pos,omitempty"`
	Stack    []string          `json:"stack,omitempty"`
	Model    map[string]string `json:"model,omitempty"`
	Choices  []uint64          `json:"choices,omitempty"`
	Count    int               `json:"count"`
	Known    bool              `json:"known"`
	Replayed string            `json:"replayed,omitempty"`
}

// Key is the stable identity used to match known findings.
func (f *Finding) Key() string {
	var sb strings.Builder
	fmt.Fprintf(&sb, "%s|%s|%s", f.Property, harnessFamily(f.Harness), f.Kind)
	switch f.Kind {
	case "assert":
		fmt.Fprintf(&sb, "|%s", f.Label)
		keys := make([]string, 0, len(f.Tags))
		for k := range f.Tags {
			keys = append(keys, k)
		}
		sort.Strings(keys)
		for _, k := range keys {
			fmt.Fprintf(&sb, "|%s=%s", k, f.Tags[k])
		}
	default:
		fmt.Fprintf(&sb, "|%s|%s|%s|%d", f.Func, f.Fault, f.Src, f.Ord)
	}
	return sb.String()
}

// harnessFamily strips a trailing _<variant> marker introduced with double underscore.
func harnessFamily(h string) string {
	if i := strings.Index(h, "__"); i >= 0 {
		return h[:i]
	}
	return h
}

type PathStats struct {
	Instrs int64
	Forks  int
}

type Exec struct {
	W  *World
	ts *TermStore
	sv *Solver

	// path state
	prefix   []Decision
	pos      int
	trace    []Decision
	pc       []*Term
	pcSet    map[*Term]bool
	model    Model
	ecache   evalCache
	children []WorkItem

	globals   map[*ssa.Global]*Ptr
	initDone  map[*ssa.Package]bool
	objSeq    int
	stack     []*Frame
	depth     int
	tags      map[string]string
	notes     map[string]string
	nondetSeq map[string]int
	inputs    []*Term // declared symbolic inputs, in order
	inputSet  map[string]bool
	observes  []string

	harness        *Harness
	loopBound      int
	allocLimit     int
	fatalIsFinding bool  // log.Fatal on a path is reported (the harness scripted no failure)
	allocTotal     int   // bytes allocated by make since AllocLimit was set
	workLimit      int64 // instructions allowed after WorkLimit was set (0: none)
	workBase       int64
	monitorShared  bool
	inInit         bool
	concreteInputs bool
	recording      *recorder // non-nil: shared-memory accesses become schedule events (C14)
	concrete       Model     // non-nil: concrete differential run, nondets read from here

	instrs       int64
	findings     []*Finding
	reach        map[string]int
	inconcl      []string
	funcsUsed    map[*ssa.Function]bool
	stubsUsed    map[string]bool
	maxConc      int
	endReason    string
	sharedWrites int
	atomicEvents int
	choiceVals   map[string]uint64
	pools        map[poolKey][]Value // sync.Pool contents (contract model), see stubPoolGet
	cfg          *RunCfg
}

func (ex *Exec) unsupported(msg string) unsupportedErr {
	var st []string
	for i := len(ex.stack) - 1; i >= 0 && len(st) < 12; i-- {
		fr := ex.stack[i]
		st = append(st, fr.fn.String()+" @ "+ex.W.posString(fr.curPos()))
	}
	return unsupportedErr{msg: msg, stack: strings.Join(st, "\n    ")}
}

func (ex *Exec) endPath(reason string) {
	panic(pathEnd{reason})
}

// ---- path condition ----

func (ex *Exec) addPC(c *Term) {
	if c.IsTrue() {
		return
	}
	if ex.pcSet[c] {
		return
	}
	ex.pcSet[c] = true
	ex.pc = append(ex.pc, c)
	if ex.sv != nil {
		ex.sv.Assert(c)
	}
}

func (ex *Exec) evalBool(c *Term) bool {
	return c.Eval(ex.model, ex.ecache).Sign() != 0
}

func (ex *Exec) setModel(m Model) {
	ex.model = m
	ex.ecache = evalCache{}
}

func (ex *Exec) replaying() bool { return ex.pos < len(ex.prefix) }

// implied reports whether c is syntactically known under the path condition.
func (ex *Exec) known(c *Term) (val bool, ok bool) {
	if c.IsConst() {
		return c.IsTrue(), true
	}
	if ex.pcSet[c] {
		return true, true
	}
	if ex.pcSet[ex.ts.Not(c)] {
		return false, true
	}
	return false, false
}

// branch decides which way to go on a symbolic condition, forking if both sides are feasible.
func (ex *Exec) branch(c *Term) bool {
	if v, ok := ex.known(c); ok {
		return v
	}
	if ex.concrete != nil {
		return ex.evalBool(c)
	}
	if ex.replaying() {
		d := ex.prefix[ex.pos]
		ex.pos++
		if d.Kind != 'b' {
			panic(fmt.Sprintf("replay divergence: expected branch decision, got %c at %d", d.Kind, ex.pos-1))
		}
		ex.trace = append(ex.trace, d)
		if d.Val == 1 {
			ex.addPC(c)
			return true
		}
		ex.addPC(ex.ts.Not(c))
		return false
	}
	nc := ex.ts.Not(c)
	cur := ex.evalBool(c) // side satisfied by the current model
	other := nc
	if !cur {
		other = c
	}
	res, m := ex.sv.Check(other, true)
	if res == Unknown {
		ex.inconcl = append(ex.inconcl, "solver unknown on branch feasibility")
	}
	var curV uint64
	if cur {
		curV = 1
	}
	if res == Sat {
		// both feasible: continue along the current model's side, queue the other
		alt := make([]Decision, len(ex.trace)+1)
		copy(alt, ex.trace)
		alt[len(ex.trace)] = Decision{'b', 1 - curV}
		ex.children = append(ex.children, WorkItem{prefix: alt, model: m})
	}
	ex.trace = append(ex.trace, Decision{'b', curV})
	if cur {
		ex.addPC(c)
	} else {
		ex.addPC(nc)
	}
	return cur
}

// concretize enumerates all feasible values of t (≤ cap) and forks once per value.
// Returns the value chosen for this path.
func (ex *Exec) concretize(t *Term, what string) uint64 {
	if t.IsConst() {
		return t.k
	}
	if t.w > 64 {
		panic(ex.unsupported("concretize wide term"))
	}
	if ex.concrete != nil {
		return t.Eval(ex.model, ex.ecache).Uint64()
	}
	if ex.replaying() {
		d := ex.prefix[ex.pos]
		ex.pos++
		if d.Kind != 'v' {
			panic(fmt.Sprintf("replay divergence: expected value decision, got %c at %d (%s)", d.Kind, ex.pos-1, what))
		}
		ex.trace = append(ex.trace, d)
		ex.addPC(ex.ts.Cmp(OpEq, t, ex.ts.Const(t.w, d.Val)))
		return d.Val
	}
	first := t.Eval(ex.model, ex.ecache).Uint64()
	vals := []uint64{first}
	models := []Model{nil}
	// enumerate the others
	ex.sv.Push()
	ex.sv.Assert(ex.ts.Not(ex.ts.Cmp(OpEq, t, ex.ts.Const(t.w, first))))
	limit := ex.W.concCap
	for {
		res, m := ex.sv.Check(nil, true)
		if res == Unknown {
			ex.inconcl = append(ex.inconcl, "solver unknown while concretising "+what)
			break
		}
		if res == Unsat {
			break
		}
		v := t.Eval(m, evalCache{}).Uint64()
		vals = append(vals, v)
		models = append(models, m)
		if len(vals) > limit {
			ex.inconcl = append(ex.inconcl, fmt.Sprintf("concretisation of %s exceeds cap %d", what, limit))
			break
		}
		ex.sv.Assert(ex.ts.Not(ex.ts.Cmp(OpEq, t, ex.ts.Const(t.w, v))))
	}
	ex.sv.Pop()
	if len(vals) > ex.maxConc {
		ex.maxConc = len(vals)
	}
	for i := 1; i < len(vals); i++ {
		alt := make([]Decision, len(ex.trace)+1)
		copy(alt, ex.trace)
		alt[len(ex.trace)] = Decision{'v', vals[i]}
		ex.children = append(ex.children, WorkItem{prefix: alt, model: models[i]})
	}
	ex.trace = append(ex.trace, Decision{'v', first})
	ex.addPC(ex.ts.Cmp(OpEq, t, ex.ts.Const(t.w, first)))
	return first
}

// choose forks over n alternatives without involving the solver.
func (ex *Exec) choose(n int, name string) int {
	if n <= 0 {
		ex.endPath("empty choice")
	}
	if ex.concrete != nil {
		if v, ok := ex.concrete[name]; ok {
			return int(v.Uint64() % uint64(n))
		}
		return 0
	}
	if ex.replaying() {
		d := ex.prefix[ex.pos]
		ex.pos++
		if d.Kind != 'v' {
			panic("replay divergence: expected choice")
		}
		ex.trace = append(ex.trace, d)
		return int(d.Val)
	}
	for i := 1; i < n; i++ {
		alt := make([]Decision, len(ex.trace)+1)
		copy(alt, ex.trace)
		alt[len(ex.trace)] = Decision{'v', uint64(i)}
		ex.children = append(ex.children, WorkItem{prefix: alt, model: ex.model})
	}
	ex.trace = append(ex.trace, Decision{'v', 0})
	return 0
}

// assume conjoins c to the path condition; ends the path if infeasible.
func (ex *Exec) assume(c *Term) {
	if v, ok := ex.known(c); ok {
		if !v {
			ex.endPath("assume-false")
		}
		return
	}
	if ex.concrete != nil {
		if !ex.evalBool(c) {
			ex.endPath("assume-false")
		}
		return
	}
	if !ex.replaying() && !ex.evalBool(c) {
		res, m := ex.sv.Check(c, true)
		if res == Unknown {
			ex.inconcl = append(ex.inconcl, "solver unknown on assume")
			ex.endPath("assume-unknown")
		}
		if res == Unsat {
			ex.endPath("assume-infeasible")
		}
		ex.setModel(m)
	}
	ex.addPC(c)
}

// mustHold checks an assertion: a feasible violation is a finding; the path continues under c.
func (ex *Exec) mustHold(c *Term, label string) {
	ex.reach[label]++
	if c.IsTrue() {
		return
	}
	if ex.concrete != nil {
		if !ex.evalBool(c) {
			ex.observes = append(ex.observes, "assert-fail:"+label)
			ex.endPath("assert-fail")
		}
		return
	}
	if ex.replaying() {
		ex.addPC(c)
		return
	}
	if v, ok := ex.known(c); ok && v {
		return
	}
	nc := ex.ts.Not(c)
	var vm Model
	if !ex.evalBool(c) {
		vm = ex.model
	} else {
		res, m := ex.sv.Check(nc, true)
		if res == Unknown {
			ex.inconcl = append(ex.inconcl, "solver unknown on assertion "+label)
		}
		if res == Sat {
			vm = m
		}
	}
	if vm != nil {
		ex.W.noteVerdict(ex, nc, Sat)
		f := &Finding{Kind: "assert", Label: label, Tags: copyTags(ex.tags)}
		ex.report(f, vm)
		if c.IsFalse() {
			ex.endPath("assert-fail")
		}
		// continue under the assertion if that is still feasible
		if !ex.evalBool(c) {
			res, m := ex.sv.Check(c, true)
			if res != Sat {
				ex.endPath("assert-always-fails")
			}
			ex.setModel(m)
		}
	} else {
		ex.W.noteVerdict(ex, nc, Unsat)
	}
	ex.addPC(c)
}

func copyTags(m map[string]string) map[string]string {
	r := make(map[string]string, len(m))
	for k, v := range m {
		r[k] = v
	}
	return r
}

func (ex *Exec) report(f *Finding, m Model) {
	f.Harness = ex.harness.Name
	f.Property = ex.harness.Property
	if len(ex.notes) > 0 {
		f.Notes = copyTags(ex.notes)
	}
	if m != nil {
		f.Model = map[string]string{}
		for _, in := range ex.inputs {
			if v, ok := m[in.name]; ok {
				f.Model[in.name] = v.String()
			} else {
				f.Model[in.name] = "0"
			}
		}
	}
	for _, d := range ex.trace {
		if d.Kind == 'v' {
			f.Choices = append(f.Choices, d.Val)
		}
	}
	f.Count = 1
	ex.findings = append(ex.findings, f)
}

func (ex *Exec) reportPanic(p *Panic) {
	f := &Finding{Kind: "panic", Func: p.fnName, Fault: p.kind, Src: p.srcLine, Msg: p.msg, Pos: p.pos, Stack: p.stack, Tags: copyTags(ex.tags)}
	var m Model
	if ex.concrete == nil {
		m = ex.model
	}
	ex.report(f, m)
}

func (ex *Exec) reportSite(kind, fault, msg string) {
	fn, pkg, src, pos, st := ex.site()
	_ = pkg
	f := &Finding{Kind: kind, Func: fn, Fault: fault, Src: src, Msg: msg, Pos: pos, Stack: st, Tags: copyTags(ex.tags)}
	var m Model
	if ex.concrete == nil {
		m = ex.model
	}
	ex.report(f, m)
}

// site returns the innermost library function on the stack with the source line it is executing.
func (ex *Exec) site() (fn, pkg, src, pos string, stack []string) {
	for i := len(ex.stack) - 1; i >= 0 && len(stack) < 10; i-- {
		fr := ex.stack[i]
		stack = append(stack, fr.fn.String()+" @ "+ex.W.posString(fr.curPos()))
	}
	for i := len(ex.stack) - 1; i >= 0; i-- {
		fr := ex.stack[i]
		if ex.W.isLibFunc(fr.fn) {
			p := fr.curPos()
			pkgPath := ""
			if fr.fn.Pkg != nil {
				pkgPath = fr.fn.Pkg.Pkg.Path()
			} else if o := fr.fn.Origin(); o != nil && o.Pkg != nil {
				pkgPath = o.Pkg.Pkg.Path() // instantiated generic
			}
			return relFuncName(fr.fn), pkgPath, ex.W.srcLine(p), ex.W.posString(p), stack
		}
	}
	if len(ex.stack) > 0 {
		fr := ex.stack[len(ex.stack)-1]
		p := fr.curPos()
		return fr.fn.String(), "", ex.W.srcLine(p), ex.W.posString(p), stack
	}
	return "?", "", "", "", stack
}

func relFuncName(fn *ssa.Function) string {
	s := fn.String()
	s = strings.ReplaceAll(s, "github.com/contiv/libOpenflow/", "")
	return s
}

func (ex *Exec) runtimePanic(kind, msg string) *Panic {
	fn, pkg, src, pos, st := ex.site()
	rt := ex.W.runtimeErrorType()
	return &Panic{val: &IfaceV{t: rt, v: StrV("runtime error: " + msg)}, kind: kind, msg: msg, fnName: fn, fnPkg: pkg, srcLine: src, pos: pos, stack: st}
}

func (ex *Exec) explicitPanic(v Value) *Panic {
	fn, pkg, src, pos, st := ex.site()
	msg := "panic"
	if iv, ok := v.(*IfaceV); ok && iv.t != nil {
		if s, ok := iv.v.(StrV); ok {
			msg = string(s)
		}
	}
	return &Panic{val: v, kind: "explicit", msg: msg, fnName: fn, fnPkg: pkg, srcLine: src, pos: pos, stack: st}
}

// guard turns an implicit runtime check into a fork: ok must hold, else panic path.
func (ex *Exec) guard(ok *Term, kind, msg string) *Panic {
	if ok.IsTrue() {
		return nil
	}
	if ok.IsFalse() || !ex.branch(ok) {
		return ex.runtimePanic(kind, msg)
	}
	return nil
}

// ---- nondeterministic inputs ----

func (ex *Exec) freshName(name string) string {
	n := ex.nondetSeq[name]
	ex.nondetSeq[name] = n + 1
	if n == 0 {
		return name
	}
	return fmt.Sprintf("%s#%d", name, n)
}

func (ex *Exec) input(name string, w uint16) *Term {
	if ex.concrete != nil {
		if v, ok := ex.concrete[name]; ok {
			if w == 0 {
				return ex.ts.Bool(v.Sign() != 0)
			}
			return ex.ts.ConstBig(w, v)
		}
		return ex.ts.Const(w, 0)
	}
	t := ex.ts.Var(w, name)
	if !ex.inputSet[name] {
		ex.inputSet[name] = true
		ex.inputs = append(ex.inputs, t)
	}
	return t
}

func modelToStrings(m Model) map[string]string {
	r := map[string]string{}
	for k, v := range m {
		r[k] = v.String()
	}
	return r
}

func stringsToModel(m map[string]string) Model {
	r := Model{}
	for k, v := range m {
		b, ok := new(big.Int).SetString(v, 10)
		if ok {
			r[k] = b
		}
	}
	return r
}

func debugf(format string, args ...interface{}) {
	if os.Getenv("SYMGO_DEBUG") != "" {
		fmt.Fprintf(os.Stderr, format+"\n", args...)
	}
}

var _ = token.NoPos
var _ types.Type
