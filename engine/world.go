package main

// World: the loaded program (shared, read-only after load) + source line lookup + global run config.

import (
	"bufio"
	"encoding/json"
	"fmt"
	"go/token"
	"go/types"
	"os"
	"path/filepath"
	"sort"
	"strings"
	"sync"

	"golang.org/x/tools/go/packages"
	"golang.org/x/tools/go/ssa"
	"golang.org/x/tools/go/ssa/ssautil"
)

const libPrefix = "github.com/contiv/libOpenflow"

type Harness struct {
	Name     string
	Property string
	Fn       *ssa.Function
	Pkg      string
}

type World struct {
	prog    *ssa.Program
	fset    *token.FileSet
	pkgs    map[string]*ssa.Package // by import path
	libPkgs []*ssa.Package
	repo    string
	overlay map[string][]byte

	srcMu    sync.Mutex
	srcCache map[string][]string

	rtErrType types.Type
	concCap   int

	verdictMu sync.Mutex
	verdicts  []verdictRec // sampled verdict queries for cross-checking
	verdictN  int
	crossAll  bool

	initAllow map[string]bool
}

type verdictRec struct {
	script string
	res    SatResult
	what   string
}

func LoadWorld(repo string, harnessDir string, tags string) (*World, error) {
	overlay := map[string][]byte{}
	// harnessDir/<pkg>/*.go are injected as /repo/<pkg>/<file>; harnessDir/verifrt as a virtual package.
	if harnessDir != "" {
		err := filepath.Walk(harnessDir, func(p string, info os.FileInfo, err error) error {
			if err != nil {
				return err
			}
			if info.IsDir() || !strings.HasSuffix(p, ".go") {
				return nil
			}
			rel, _ := filepath.Rel(harnessDir, p)
			if strings.HasPrefix(rel, "root"+string(filepath.Separator)) {
				rel = strings.TrimPrefix(rel, "root"+string(filepath.Separator))
			}
			b, err := os.ReadFile(p)
			if err != nil {
				return err
			}
			overlay[filepath.Join(repo, rel)] = b
			return nil
		})
		if err != nil {
			return nil, err
		}
	}
	cfg := &packages.Config{
		Mode:       packages.LoadAllSyntax,
		Dir:        repo,
		BuildFlags: []string{"-mod=readonly", "-tags=" + tags},
		Overlay:    overlay,
		Env:        append(os.Environ(), "GOFLAGS=", "GOPROXY=off", "GOSUMDB=off", "GOTOOLCHAIN=local"),
	}
	pkgs, err := packages.Load(cfg, "./...")
	if err != nil {
		return nil, err
	}
	nerr := 0
	packages.Visit(pkgs, nil, func(p *packages.Package) {
		for _, e := range p.Errors {
			if strings.HasPrefix(p.PkgPath, libPrefix) {
				fmt.Fprintf(os.Stderr, "load error: %s: %v\n", p.PkgPath, e)
				nerr++
			}
		}
	})
	if nerr > 0 {
		return nil, fmt.Errorf("%d load errors in %s", nerr, repo)
	}
	prog, _ := ssautil.AllPackages(pkgs, ssa.InstantiateGenerics)
	prog.Build()
	w := &World{prog: prog, fset: prog.Fset, pkgs: map[string]*ssa.Package{}, repo: repo, overlay: overlay, srcCache: map[string][]string{}, concCap: 1100}
	for _, p := range prog.AllPackages() {
		w.pkgs[p.Pkg.Path()] = p
		if strings.HasPrefix(p.Pkg.Path(), libPrefix) {
			w.libPkgs = append(w.libPkgs, p)
		}
	}
	sort.Slice(w.libPkgs, func(i, j int) bool { return w.libPkgs[i].Pkg.Path() < w.libPkgs[j].Pkg.Path() })
	if rt := w.pkgs["runtime"]; rt != nil {
		if m := rt.Members["errorString"]; m != nil {
			w.rtErrType = m.Type()
		}
	}
	w.initAllow = map[string]bool{"io": true, "bytes": true, "encoding/binary": true, "internal/oserror": true}
	return w, nil
}

func (w *World) runtimeErrorType() types.Type { return w.rtErrType }

func (w *World) isLibPkg(p *ssa.Package) bool {
	if p == nil {
		return false
	}
	path := p.Pkg.Path()
	return strings.HasPrefix(path, libPrefix) && !strings.HasSuffix(path, "/verifrt")
}

// isLibFunc: function belongs to libOpenflow proper (not a harness file, not verifrt).
func (w *World) isLibFunc(fn *ssa.Function) bool {
	f := fn
	for f.Parent() != nil {
		f = f.Parent()
	}
	if f.Origin() != nil {
		f = f.Origin()
	}
	if f.Pkg == nil {
		// wrappers / synthetic: attribute by receiver type's package
		if f.Signature.Recv() != nil {
			if n := namedOf(f.Signature.Recv().Type()); n != nil && n.Obj().Pkg() != nil {
				return strings.HasPrefix(n.Obj().Pkg().Path(), libPrefix) && !strings.HasSuffix(n.Obj().Pkg().Path(), "/verifrt")
			}
		}
		return false
	}
	if !w.isLibPkg(f.Pkg) {
		return false
	}
	if f.Pos().IsValid() {
		name := filepath.Base(w.fset.Position(f.Pos()).Filename)
		if strings.HasPrefix(name, "zz_verif") {
			return false
		}
	}
	return true
}

// isHarnessGlobal: a package-level variable declared in a harness file (zz_verif_*.go) or verifrt.
func (w *World) isHarnessGlobal(g *ssa.Global) bool {
	if g.Pkg != nil && strings.HasSuffix(g.Pkg.Pkg.Path(), "/verifrt") {
		return true
	}
	if g.Pos().IsValid() {
		return strings.HasPrefix(filepath.Base(w.fset.Position(g.Pos()).Filename), "zz_verif")
	}
	return false
}

func namedOf(t types.Type) *types.Named {
	if p, ok := t.(*types.Pointer); ok {
		t = p.Elem()
	}
	n, _ := t.(*types.Named)
	return n
}

func (w *World) posString(p token.Pos) string {
	if !p.IsValid() {
		return "?"
	}
	pos := w.fset.Position(p)
	f := pos.Filename
	if strings.HasPrefix(f, w.repo+"/") {
		f = strings.TrimPrefix(f, w.repo+"/")
	}
	return fmt.Sprintf("%s:%d", f, pos.Line)
}

func (w *World) srcLine(p token.Pos) string {
	if !p.IsValid() {
		return ""
	}
	pos := w.fset.Position(p)
	w.srcMu.Lock()
	defer w.srcMu.Unlock()
	lines, ok := w.srcCache[pos.Filename]
	if !ok {
		var data []byte
		if b, ok := w.overlay[pos.Filename]; ok {
			data = b
		} else {
			data, _ = os.ReadFile(pos.Filename)
		}
		sc := bufio.NewScanner(strings.NewReader(string(data)))
		sc.Buffer(make([]byte, 1<<20), 1<<20)
		for sc.Scan() {
			lines = append(lines, sc.Text())
		}
		w.srcCache[pos.Filename] = lines
	}
	if pos.Line-1 < len(lines) && pos.Line >= 1 {
		return strings.Join(strings.Fields(lines[pos.Line-1]), " ")
	}
	return ""
}

// Harnesses returns the functions named Verif<Prop>_<name> in all lib packages.
func (w *World) Harnesses(prop string) []*Harness {
	var hs []*Harness
	for _, p := range w.libPkgs {
		for name, m := range p.Members {
			fn, ok := m.(*ssa.Function)
			if !ok || !strings.HasPrefix(name, "Verif") {
				continue
			}
			rest := strings.TrimPrefix(name, "Verif")
			i := strings.Index(rest, "_")
			if i < 0 {
				continue
			}
			pr := rest[:i]
			if prop != "" && pr != prop {
				continue
			}
			if fn.Signature.Params().Len() != 0 {
				continue
			}
			hs = append(hs, &Harness{Name: name, Property: pr, Fn: fn, Pkg: p.Pkg.Path()})
		}
	}
	sort.Slice(hs, func(i, j int) bool { return hs[i].Name < hs[j].Name })
	return hs
}

// noteVerdict keeps verdict queries (assert/panic) for cross-solver diffing.
func (w *World) noteVerdict(ex *Exec, extra *Term, res SatResult) {
	w.verdictMu.Lock()
	defer w.verdictMu.Unlock()
	w.verdictN++
	keep := w.crossAll || len(w.verdicts) < 50 || w.verdictN%97 == 0
	if !keep || len(w.verdicts) >= 2000 {
		return
	}
	as := append([]*Term{}, ex.pc...)
	as = append(as, extra)
	w.verdicts = append(w.verdicts, verdictRec{script: Script(as), res: res, what: ex.harness.Name})
}

func mustJSON(v interface{}) string {
	b, err := json.MarshalIndent(v, "", " ")
	if err != nil {
		panic(err)
	}
	return string(b)
}
