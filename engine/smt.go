package main

// One long-lived SMT solver process per worker, driven through stdin/stdout with push/pop.

import (
	"bufio"
	"fmt"
	"io"
	"math/big"
	"os"
	"os/exec"
	"strings"
	"time"
)

type SatResult int

const (
	Unsat SatResult = iota
	Sat
	Unknown
)

func (r SatResult) String() string { return [...]string{"unsat", "sat", "unknown"}[r] }

type SolverKind string

const (
	SolverZ3    SolverKind = "z3"
	SolverZ3New SolverKind = "z3-new"
	SolverCVC5  SolverKind = "cvc5"
)

type Solver struct {
	kind      SolverKind
	cmd       *exec.Cmd
	in        io.WriteCloser
	out       *bufio.Reader
	level     int
	defined   []map[*Term]bool // per push level: terms defined / vars declared
	declVar   []map[string]uint16
	Queries   int
	NSat      int
	NUnsat    int
	NUnk      int
	Time      time.Duration
	log       io.Writer
	dead      bool
	TimeoutMs int
}

func NewSolver(kind SolverKind, timeoutMs int) (*Solver, error) {
	var cmd *exec.Cmd
	switch kind {
	case SolverZ3:
		cmd = exec.Command("z3", "-in", fmt.Sprintf("-t:%d", timeoutMs))
	case SolverZ3New:
		cmd = exec.Command("z3-new", "-in", fmt.Sprintf("-t:%d", timeoutMs))
	case SolverCVC5:
		cmd = exec.Command("cvc5", "--incremental", "--produce-models", "--lang=smt2", fmt.Sprintf("--tlimit-per=%d", timeoutMs))
	}
	in, err := cmd.StdinPipe()
	if err != nil {
		return nil, err
	}
	outp, err := cmd.StdoutPipe()
	if err != nil {
		return nil, err
	}
	cmd.Stderr = os.Stderr
	if err := cmd.Start(); err != nil {
		return nil, err
	}
	s := &Solver{kind: kind, cmd: cmd, in: in, out: bufio.NewReaderSize(outp, 1<<16), TimeoutMs: timeoutMs}
	s.defined = []map[*Term]bool{{}}
	s.declVar = []map[string]uint16{{}}
	if kind == SolverCVC5 {
		s.send("(set-logic ALL)")
	}
	s.send("(set-option :print-success false)")
	if f := os.Getenv("SYMGO_SMTLOG"); f != "" {
		lf, _ := os.Create(fmt.Sprintf("%s.%d", f, cmd.Process.Pid))
		s.log = lf
	}
	return s, nil
}

func (s *Solver) send(line string) {
	if s.log != nil {
		fmt.Fprintln(s.log, line)
	}
	if _, err := io.WriteString(s.in, line+"\n"); err != nil {
		s.dead = true
	}
}

func (s *Solver) readLine() string {
	l, err := s.out.ReadString('\n')
	if err != nil {
		s.dead = true
		return "(error \"solver died\")"
	}
	return strings.TrimSpace(l)
}

func (s *Solver) Close() {
	s.send("(exit)")
	s.in.Close()
	done := make(chan struct{})
	go func() { s.cmd.Wait(); close(done) }()
	select {
	case <-done:
	case <-time.After(2 * time.Second):
		s.cmd.Process.Kill()
	}
}

func (s *Solver) Push() {
	s.send("(push 1)")
	s.level++
	s.defined = append(s.defined, map[*Term]bool{})
	s.declVar = append(s.declVar, map[string]uint16{})
}

func (s *Solver) Pop() {
	s.send("(pop 1)")
	s.level--
	s.defined = s.defined[:len(s.defined)-1]
	s.declVar = s.declVar[:len(s.declVar)-1]
}

func (s *Solver) isDefined(t *Term) bool {
	for _, m := range s.defined {
		if m[t] {
			return true
		}
	}
	return false
}

// define emits declarations/definitions for t and everything below it (iteratively, post-order).
func (s *Solver) define(t *Term) {
	if t.op == OpConst || s.isDefined(t) {
		return
	}
	type fr struct {
		t *Term
		i int
	}
	stack := []fr{{t, 0}}
	for len(stack) > 0 {
		f := &stack[len(stack)-1]
		cur := f.t
		if cur.op == OpConst || s.isDefined(cur) {
			stack = stack[:len(stack)-1]
			continue
		}
		kids := [3]*Term{cur.a, cur.b, cur.c}
		if f.i < 3 {
			k := kids[f.i]
			f.i++
			if k != nil && k.op != OpConst && !s.isDefined(k) {
				stack = append(stack, fr{k, 0})
			}
			continue
		}
		if cur.op == OpVar {
			s.send(fmt.Sprintf("(declare-const %s %s)", smtVarName(cur.name), smtSort(cur.w)))
			s.declVar[s.level][cur.name] = cur.w
		} else {
			s.send(fmt.Sprintf("(define-fun t%d () %s %s)", cur.id, smtSort(cur.w), smtBody(cur)))
		}
		s.defined[s.level][cur] = true
		stack = stack[:len(stack)-1]
	}
}

func (s *Solver) Assert(t *Term) {
	if t.IsTrue() {
		return
	}
	s.define(t)
	s.send("(assert " + smtRef(t) + ")")
}

// Check decides satisfiability of the current assertions plus extra (may be nil).
// If wantModel and the result is sat, the values of all declared variables are returned.
func (s *Solver) Check(extra *Term, wantModel bool) (SatResult, Model) {
	if s.dead {
		return Unknown, nil
	}
	start := time.Now()
	defer func() { s.Time += time.Since(start) }()
	s.Queries++
	if extra != nil {
		s.define(extra) // definitions live at the enclosing level
		s.send("(push 1)")
		s.send("(assert " + smtRef(extra) + ")")
	}
	s.send("(check-sat)")
	res := Unknown
	line := s.readLine()
	switch {
	case line == "sat":
		res = Sat
	case line == "unsat":
		res = Unsat
	case line == "unknown" || line == "timeout":
		res = Unknown
	default:
		// (error ...) or anything else: inconclusive
		fmt.Fprintf(os.Stderr, "solver[%s]: unexpected answer %q\n", s.kind, line)
		res = Unknown
	}
	var model Model
	if res == Sat && wantModel {
		model = s.getModel()
		if model == nil {
			res = Unknown
		}
	}
	if extra != nil {
		s.send("(pop 1)")
	}
	switch res {
	case Sat:
		s.NSat++
	case Unsat:
		s.NUnsat++
	default:
		s.NUnk++
	}
	return res, model
}

func (s *Solver) allVars() []string {
	var names []string
	for _, m := range s.declVar {
		for n := range m {
			names = append(names, n)
		}
	}
	return names
}

func (s *Solver) getModel() Model {
	names := s.allVars()
	model := Model{}
	if len(names) == 0 {
		return model
	}
	// batch to keep lines short
	const batch = 200
	for i := 0; i < len(names); i += batch {
		j := i + batch
		if j > len(names) {
			j = len(names)
		}
		var sb strings.Builder
		sb.WriteString("(get-value (")
		for _, n := range names[i:j] {
			sb.WriteString(smtVarName(n))
			sb.WriteString(" ")
		}
		sb.WriteString("))")
		s.send(sb.String())
		txt := s.readSexp()
		if strings.HasPrefix(txt, "(error") {
			fmt.Fprintf(os.Stderr, "solver[%s]: get-value: %s\n", s.kind, txt)
			return nil
		}
		if !parseValues(txt, model) {
			fmt.Fprintf(os.Stderr, "solver[%s]: cannot parse get-value answer %q\n", s.kind, txt)
			return nil
		}
	}
	return model
}

// readSexp reads lines until parentheses balance (| quoted symbols respected).
func (s *Solver) readSexp() string {
	var sb strings.Builder
	depth := 0
	inBar := false
	started := false
	for {
		l, err := s.out.ReadString('\n')
		if err != nil {
			s.dead = true
			return "(error \"solver died\")"
		}
		sb.WriteString(l)
		for _, ch := range l {
			switch {
			case ch == '|':
				inBar = !inBar
			case inBar:
			case ch == '(':
				depth++
				started = true
			case ch == ')':
				depth--
			}
		}
		if started && depth <= 0 {
			return strings.TrimSpace(sb.String())
		}
	}
}

// parseValues parses ((|name| #x..) (|name2| true) ...)
func parseValues(txt string, model Model) bool {
	i := 0
	n := len(txt)
	skip := func() {
		for i < n && (txt[i] == ' ' || txt[i] == '\n' || txt[i] == '\t' || txt[i] == '\r') {
			i++
		}
	}
	skip()
	if i >= n || txt[i] != '(' {
		return false
	}
	i++
	for {
		skip()
		if i >= n {
			return false
		}
		if txt[i] == ')' {
			return true
		}
		if txt[i] != '(' {
			return false
		}
		i++
		skip()
		var name string
		if txt[i] == '|' {
			j := strings.IndexByte(txt[i+1:], '|')
			if j < 0 {
				return false
			}
			name = txt[i+1 : i+1+j]
			i = i + 1 + j + 1
		} else {
			j := i
			for j < n && txt[j] != ' ' && txt[j] != ')' {
				j++
			}
			name = txt[i:j]
			i = j
		}
		skip()
		j := i
		depth := 0
		for j < n {
			if txt[j] == '(' {
				depth++
			} else if txt[j] == ')' {
				if depth == 0 {
					break
				}
				depth--
			}
			j++
		}
		val := strings.TrimSpace(txt[i:j])
		i = j + 1
		v := new(big.Int)
		switch {
		case val == "true":
			v.SetInt64(1)
		case val == "false":
		case strings.HasPrefix(val, "#x"):
			if _, ok := v.SetString(val[2:], 16); !ok {
				return false
			}
		case strings.HasPrefix(val, "#b"):
			if _, ok := v.SetString(val[2:], 2); !ok {
				return false
			}
		case strings.HasPrefix(val, "(_ bv"):
			f := strings.Fields(val[5:])
			if _, ok := v.SetString(f[0], 10); !ok {
				return false
			}
		default:
			return false
		}
		model[name] = v
	}
}

// OneShot decides a standalone script with another solver (cross-check); returns the verdict.
func OneShot(kind SolverKind, script string, timeoutMs int) SatResult {
	var cmd *exec.Cmd
	switch kind {
	case SolverZ3:
		cmd = exec.Command("z3", "-in", fmt.Sprintf("-t:%d", timeoutMs))
	case SolverZ3New:
		cmd = exec.Command("z3-new", "-in", fmt.Sprintf("-t:%d", timeoutMs))
	case SolverCVC5:
		cmd = exec.Command("cvc5", "--lang=smt2", fmt.Sprintf("--tlimit=%d", timeoutMs))
		script = "(set-logic ALL)\n" + script
	}
	cmd.Stdin = strings.NewReader(script)
	out, _ := cmd.Output()
	txt := string(out)
	if strings.Contains(txt, "(error") {
		return Unknown
	}
	for _, l := range strings.Split(txt, "\n") {
		l = strings.TrimSpace(l)
		if l == "sat" {
			return Sat
		}
		if l == "unsat" {
			return Unsat
		}
	}
	return Unknown
}

// Script renders a standalone SMT-LIB script asserting the given terms (for cross-checking).
func Script(asserts []*Term) string {
	var sb strings.Builder
	seen := map[*Term]bool{}
	var def func(t *Term)
	def = func(t *Term) {
		if t.op == OpConst || seen[t] {
			return
		}
		seen[t] = true
		for _, k := range []*Term{t.a, t.b, t.c} {
			if k != nil {
				def(k)
			}
		}
		if t.op == OpVar {
			fmt.Fprintf(&sb, "(declare-const %s %s)\n", smtVarName(t.name), smtSort(t.w))
		} else {
			fmt.Fprintf(&sb, "(define-fun t%d () %s %s)\n", t.id, smtSort(t.w), smtBody(t))
		}
	}
	for _, a := range asserts {
		def(a)
		fmt.Fprintf(&sb, "(assert %s)\n", smtRef(a))
	}
	sb.WriteString("(check-sat)\n")
	return sb.String()
}
