package main

// Schedules as solver variables (C14): the thread body is executed symbolically once per thread
// in recording mode, where every access to shared memory (memory reachable from the library's
// package-level variables) becomes an event whose observed value is a placeholder variable.
// All interleavings of the recorded event sequences are then encoded at once: step s of the
// global schedule is a solver variable pick_s (which thread moves), the shared cells and the
// per-thread program counters are if-then-else terms over the picks, and each placeholder is
// constrained to what its event observes. One query per pair of threads asks whether the two
// returned values can be equal under some schedule and some initial cell value.

import (
	"fmt"
	"go/types"

	"golang.org/x/tools/go/ssa"
)

type cellKey struct {
	c Container
	i int
}

type schedEvent struct {
	kind   string // load | store | add
	cell   int
	val    *Term // store value / add delta
	obs    *Term // placeholder for the value observed (load) or produced (add)
	atomic bool
	pos    string
}

type recorder struct {
	thread int
	events []schedEvent
	cells  map[cellKey]int
	widths []uint16
	names  []string
}

func (ex *Exec) recCell(p *Ptr, w uint16) int {
	r := ex.recording
	k := cellKey{p.base, p.idx}
	if id, ok := r.cells[k]; ok {
		return id
	}
	id := len(r.widths)
	r.cells[k] = id
	r.widths = append(r.widths, w)
	name := "shared"
	if o := p.base.owner(); o != nil && o.global != "" {
		name = o.global
	}
	r.names = append(r.names, name)
	return id
}

func (ex *Exec) recordAccess(kind string, p *Ptr, w uint16, val *Term, atomic bool) *Term {
	r := ex.recording
	_, _, _, pos, _ := ex.site()
	ev := schedEvent{kind: kind, cell: ex.recCell(p, w), val: val, atomic: atomic, pos: pos}
	if kind != "store" {
		ev.obs = ex.ts.Var(w, fmt.Sprintf("sched.t%d.e%d", r.thread, len(r.events)))
	}
	r.events = append(r.events, ev)
	return ev.obs
}

// sharedScalar: p addresses an integer cell of shared memory
func (ex *Exec) sharedScalar(p *Ptr) (uint16, bool) {
	if ex.recording == nil || p.IsNil() {
		return 0, false
	}
	o := p.base.owner()
	if o == nil || !o.shared {
		return 0, false
	}
	t, ok := p.base.get(p.idx).(*Term)
	if !ok || t.w == 0 {
		return 0, false
	}
	return t.w, true
}

func rtThreads(ex *Exec, fn *ssa.Function, args []Value) (Value, *Panic) {
	n := int(args[0].(*Term).Int())
	body := args[1].(*FuncV)
	label := argStr(args[2])
	ex.reach[label]++
	ts := ex.ts
	cells := map[cellKey]int{}
	var rec []*recorder
	var rets []*Term
	var widths []uint16
	var names []string
	for i := 0; i < n; i++ {
		r := &recorder{thread: i, cells: cells, widths: widths, names: names}
		ex.recording = r
		var bargs []Value
		if body.fn != nil && body.fn.Signature.Params().Len() == 1 {
			bargs = []Value{ts.Const(64, uint64(i))} // ThreadsIdx: the thread's index
		}
		v, pan := ex.callFuncV(body, bargs, nil)
		ex.recording = nil
		if pan != nil {
			return nil, pan
		}
		widths, names = r.widths, r.names
		rec = append(rec, r)
		rets = append(rets, v.(*Term))
	}
	if ex.replaying() || ex.concrete != nil {
		return nil, nil
	}
	// data races: two accesses to one cell from different threads, at least one a write, at
	// least one not atomic
	for i := 0; i < n; i++ {
		for j := i + 1; j < n; j++ {
			for _, a := range rec[i].events {
				for _, b := range rec[j].events {
					if a.cell == b.cell && (a.kind != "load" || b.kind != "load") && (!a.atomic || !b.atomic) {
						f := &Finding{Kind: "race", Label: label, Fault: "data-race", Func: names[a.cell], Src: a.kind + "/" + b.kind, Tags: copyTags(ex.tags),
							Msg: fmt.Sprintf("unsynchronised %s at %s and %s at %s on %s", a.kind, a.pos, b.kind, b.pos, names[a.cell])}
						ex.report(f, ex.model)
						goto raced
					}
				}
			}
		}
	}
raced:
	// ---- the schedule encoding ----
	total := 0
	for _, r := range rec {
		total += len(r.events)
	}
	// (no shared access at all is not a reason to stop: threads that draw from private state can
	// still return equal values)
	const pw = 8 // width of pick / pc terms
	// initial cell values: arbitrary, far enough from the 32-bit wrap (the property's precondition)
	cellv := make([]*Term, len(widths))
	var cons []*Term
	for c, w := range widths {
		cellv[c] = ex.input(ex.freshName(fmt.Sprintf("sched.cell%d.initial", c)), w)
		if w >= 8 {
			lim := ts.Bin(OpSub, ts.Const(w, ^uint64(0)), ts.Const(w, uint64(4*total+4)))
			cons = append(cons, ts.Cmp(OpUle, cellv[c], lim))
		}
	}
	pc := make([]*Term, n)
	for i := range pc {
		pc[i] = ts.Const(pw, 0)
	}
	obs := map[*Term]*Term{} // placeholder -> observed value term
	for _, r := range rec {
		for _, e := range r.events {
			if e.obs != nil {
				obs[e.obs] = ts.Const(e.obs.w, 0)
			}
		}
	}
	var picks []*Term
	for s := 0; s < total; s++ {
		pick := ex.input(ex.freshName(fmt.Sprintf("sched.step%d.thread", s)), pw)
		picks = append(picks, pick)
		// the picked thread exists and has an event left
		valid := ts.Fals
		for i, r := range rec {
			valid = ts.Or(valid, ts.And(ts.Cmp(OpEq, pick, ts.Const(pw, uint64(i))), ts.Cmp(OpUlt, pc[i], ts.Const(pw, uint64(len(r.events))))))
		}
		cons = append(cons, valid)
		newCell := append([]*Term{}, cellv...)
		for i, r := range rec {
			mine := ts.Cmp(OpEq, pick, ts.Const(pw, uint64(i)))
			for k, e := range r.events {
				cond := ts.And(mine, ts.Cmp(OpEq, pc[i], ts.Const(pw, uint64(k))))
				cur := cellv[e.cell]
				switch e.kind {
				case "load":
					obs[e.obs] = ts.Ite(cond, cur, obs[e.obs])
				case "store":
					newCell[e.cell] = ts.Ite(cond, e.val, newCell[e.cell])
				case "add":
					nv := ts.Bin(OpAdd, cur, e.val)
					obs[e.obs] = ts.Ite(cond, nv, obs[e.obs])
					newCell[e.cell] = ts.Ite(cond, nv, newCell[e.cell])
				}
			}
			pc[i] = ts.Ite(mine, ts.Bin(OpAdd, pc[i], ts.Const(pw, 1)), pc[i])
		}
		cellv = newCell
	}
	for ph, v := range obs {
		cons = append(cons, ts.Cmp(OpEq, ph, v))
	}
	all := ts.True
	for _, c := range cons {
		all = ts.And(all, c)
	}
	// ---- queries: can two threads return the same value? ----
	for i := 0; i < n; i++ {
		for j := i + 1; j < n; j++ {
			q := ts.And(all, ts.Cmp(OpEq, rets[i], rets[j]))
			res, m := ex.sv.Check(q, true)
			ex.W.noteVerdict(ex, q, res)
			if res == Unknown {
				ex.inconcl = append(ex.inconcl, "solver unknown on schedule query "+label)
			}
			if res == Sat {
				sched := ""
				for _, p := range picks {
					sched += fmt.Sprintf("%d", p.Eval(m, evalCache{}).Uint64())
				}
				f := &Finding{Kind: "schedule", Label: label, Fault: "duplicate", Func: fmt.Sprintf("threads %d and %d", i, j), Src: "", Tags: copyTags(ex.tags),
					Msg: fmt.Sprintf("threads %d and %d return the same value %d under the schedule (thread moving at each step) %s", i, j, rets[i].Eval(m, evalCache{}).Uint64(), sched)}
				ex.report(f, m)
				return nil, nil
			}
		}
	}
	return nil, nil
}

var _ = types.Typ
