package main

import (
	"fmt"
	"go/types"

	"golang.org/x/tools/go/ssa"
)

func (ex *Exec) callBuiltin(fr *Frame, name string, args []Value, cc *ssa.CallCommon) (Value, *Panic) {
	ts := ex.ts
	switch name {
	case "len":
		switch x := args[0].(type) {
		case *SliceV:
			return ts.Const(64, uint64(x.len)), nil
		case StrV:
			return ts.Const(64, uint64(len(x))), nil
		case *MapV:
			if x.m == nil {
				return ts.Const(64, 0), nil
			}
			return ts.Const(64, uint64(len(x.m.entries))), nil
		case *ChanV:
			if x.c == nil {
				return ts.Const(64, 0), nil
			}
			return ts.Const(64, uint64(len(x.c.buf))), nil
		case *ArrayV:
			return ts.Const(64, uint64(len(x.e))), nil
		case *Ptr:
			if a, ok := x.base.get(x.idx).(*ArrayV); ok {
				return ts.Const(64, uint64(len(a.e))), nil
			}
		}
		panic(ex.unsupported(fmt.Sprintf("len of %T", args[0])))
	case "cap":
		switch x := args[0].(type) {
		case *SliceV:
			return ts.Const(64, uint64(x.cap)), nil
		case *ChanV:
			if x.c == nil {
				return ts.Const(64, 0), nil
			}
			return ts.Const(64, uint64(x.c.cap)), nil
		case *ArrayV:
			return ts.Const(64, uint64(len(x.e))), nil
		}
		panic(ex.unsupported(fmt.Sprintf("cap of %T", args[0])))
	case "append":
		s := args[0].(*SliceV)
		var elemT types.Type
		if cc != nil {
			elemT = cc.Args[0].Type().Underlying().(*types.Slice).Elem()
		}
		var add []Value
		switch y := args[1].(type) {
		case *SliceV:
			for i := 0; i < y.len; i++ {
				add = append(add, y.arr.e[y.off+i])
			}
		case StrV:
			for i := 0; i < len(y); i++ {
				add = append(add, ts.Const(8, uint64(y[i])))
			}
		default:
			panic(ex.unsupported(fmt.Sprintf("append of %T", args[1])))
		}
		return ex.appendVals(s, add, elemT), nil
	case "copy":
		d := args[0].(*SliceV)
		var src []Value
		switch y := args[1].(type) {
		case *SliceV:
			for i := 0; i < y.len; i++ {
				src = append(src, y.arr.e[y.off+i])
			}
			if y.arr != nil {
				ex.noteRead(y.arr.own)
			}
		case StrV:
			for i := 0; i < len(y); i++ {
				src = append(src, ts.Const(8, uint64(y[i])))
			}
		}
		n := len(src)
		if d.len < n {
			n = d.len
		}
		if n > 0 {
			ex.noteWrite(d.arr.own)
		}
		for i := 0; i < n; i++ {
			assignInto(d.arr, d.off+i, src[i])
		}
		return ts.Const(64, uint64(n)), nil
	case "close":
		ch := args[0].(*ChanV)
		if ch.c == nil {
			return nil, ex.runtimePanic("explicit", "close of nil channel")
		}
		if ch.c.closed {
			return nil, ex.runtimePanic("explicit", "close of closed channel")
		}
		ch.c.closed = true
		return nil, nil
	case "delete":
		m := args[0].(*MapV)
		if m.m != nil {
			if i := ex.mapFind(m.m, args[1]); i >= 0 {
				ex.noteWrite(m.m.own)
				m.m.entries = append(m.m.entries[:i:i], m.m.entries[i+1:]...)
			}
		}
		return nil, nil
	case "recover":
		if fr != nil && fr.deferredBy != nil && fr.deferredBy.panicking != nil {
			p := fr.deferredBy.panicking
			fr.deferredBy.panicking = nil
			return p.val, nil
		}
		return nilIface, nil
	case "print", "println":
		return nil, nil
	case "ssa:wrapnilchk":
		p := args[0].(*Ptr)
		if p.IsNil() {
			return nil, ex.runtimePanic("nil", "value method called using nil pointer")
		}
		return p, nil
	case "min", "max":
		t := cc.Args[0].Type()
		_, signed, ok := intWidth(t)
		if !ok {
			panic(ex.unsupported("min/max on non-integers"))
		}
		r := args[0].(*Term)
		for _, a := range args[1:] {
			y := a.(*Term)
			var lt *Term
			if signed {
				lt = ts.Cmp(OpSlt, y, r)
			} else {
				lt = ts.Cmp(OpUlt, y, r)
			}
			if name == "max" {
				lt = ts.Not(ts.Or(lt, ts.Cmp(OpEq, y, r)))
			}
			r = ts.Ite(lt, y, r)
		}
		return r, nil
	}
	panic(ex.unsupported("builtin " + name))
}

// appendVals implements append: in place within capacity, else reallocate with max(2*cap, need).
func (ex *Exec) appendVals(s *SliceV, add []Value, elemT types.Type) *SliceV {
	need := s.len + len(add)
	if len(add) == 0 {
		if s.arr == nil {
			return nilSlice
		}
		return s
	}
	if s.arr != nil && need <= s.cap {
		ex.noteWrite(s.arr.own)
		for i, v := range add {
			assignInto(s.arr, s.off+s.len+i, v)
		}
		return &SliceV{arr: s.arr, off: s.off, len: need, cap: s.cap}
	}
	nc := 2 * s.cap
	if nc < need {
		nc = need
	}
	if elemT == nil {
		panic(ex.unsupported("append without element type"))
	}
	arr := ex.newArray(elemT, nc, "append")
	for i := 0; i < s.len; i++ {
		assignInto(arr, i, s.arr.e[s.off+i])
	}
	for i, v := range add {
		assignInto(arr, s.len+i, v)
	}
	return &SliceV{arr: arr, off: 0, len: need, cap: nc}
}
