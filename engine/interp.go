package main

// The SSA interpreter: frames, instructions, calls, defers/recover.

import (
	"fmt"
	"go/constant"
	"go/token"
	"go/types"
	"strings"

	"golang.org/x/tools/go/ssa"
)

type deferred struct {
	fn   *FuncV
	args []Value
	intr string // builtin name for deferred builtins
	call *ssa.CallCommon
}

type Frame struct {
	fn         *ssa.Function
	env        map[ssa.Value]Value
	block      *ssa.BasicBlock
	prev       *ssa.BasicBlock
	ip         int
	defers     []deferred
	panicking  *Panic
	deferredBy *Frame // frame whose defers are running this call (for recover)
	visits     map[*ssa.BasicBlock]int
	results    Value
	lastPos    token.Pos
}

func (fr *Frame) curPos() token.Pos {
	if fr.block != nil && fr.ip < len(fr.block.Instrs) {
		for i := fr.ip; i >= 0; i-- {
			if p := fr.block.Instrs[i].Pos(); p.IsValid() {
				return p
			}
		}
	}
	if fr.lastPos.IsValid() {
		return fr.lastPos
	}
	return fr.fn.Pos()
}

const maxDepth = 200

func (ex *Exec) get(fr *Frame, v ssa.Value) Value {
	switch x := v.(type) {
	case *ssa.Const:
		return ex.constVal(x)
	case *ssa.Global:
		return ex.globalPtr(x)
	case *ssa.Function:
		return &FuncV{fn: x}
	case *ssa.Builtin:
		return &OpaqueV{kind: "builtin", x: x.Name()}
	}
	r, ok := fr.env[v]
	if !ok {
		panic(ex.unsupported(fmt.Sprintf("use of undefined SSA value %s (%T) in %s", v.Name(), v, fr.fn)))
	}
	return r
}

func (ex *Exec) constVal(c *ssa.Const) Value {
	t := c.Type()
	if c.Value == nil {
		return ex.zero(t, nil)
	}
	if w, signed, ok := intWidth(t); ok {
		if w == 0 {
			return ex.ts.Bool(constant.BoolVal(c.Value))
		}
		if signed {
			return ex.ts.Const(w, uint64(c.Int64()))
		}
		return ex.ts.Const(w, c.Uint64())
	}
	if isString(t) {
		return StrV(constant.StringVal(c.Value))
	}
	if isFloat(t) {
		f, _ := constant.Float64Val(c.Value)
		return &OpaqueV{kind: "float", x: f}
	}
	// type-parameterised or other
	if _, ok := t.Underlying().(*types.Interface); ok {
		return nilIface
	}
	panic(ex.unsupported("constant of type " + t.String()))
}

func (ex *Exec) globalPtr(g *ssa.Global) *Ptr {
	if p, ok := ex.globals[g]; ok {
		return p
	}
	if g.Pkg != nil && !ex.W.isLibPkg(g.Pkg) && !strings.HasSuffix(g.Pkg.Pkg.Path(), "/verifrt") && !ex.inInit {
		ex.ensureInit(g.Pkg)
		if p, ok := ex.globals[g]; ok {
			return p
		}
	}
	p := ex.alloc(g.Type().(*types.Pointer).Elem(), "global "+g.String())
	p.base.(*Obj).global = g.String()
	p.base.(*Obj).shared = !ex.W.isHarnessGlobal(g)
	ex.globals[g] = p
	return p
}

// ensureInit runs the package initializer of an allow-listed dependency on first touch.
func (ex *Exec) ensureInit(p *ssa.Package) {
	if ex.initDone[p] {
		return
	}
	ex.initDone[p] = true
	path := p.Pkg.Path()
	if !ex.W.initAllow[path] {
		if ext, ok := externGlobals[path]; ok {
			ext(ex, p)
			return
		}
		return
	}
	init := p.Func("init")
	if init == nil {
		return
	}
	saved := ex.inInit
	ex.inInit = true
	_, pan := ex.call(init, nil, nil, nil)
	ex.inInit = saved
	if pan != nil {
		panic(ex.unsupported("panic in init of " + path + ": " + pan.msg))
	}
}

// call runs fn to completion.
func (ex *Exec) call(fn *ssa.Function, args []Value, bind []Value, deferredBy *Frame) (Value, *Panic) {
	if intr := ex.lookupIntrinsic(fn); intr != nil {
		return intr(ex, fn, args)
	}
	if fn.Synthetic == "package initializer" && fn.Pkg != nil {
		path := fn.Pkg.Pkg.Path()
		if (!strings.HasPrefix(path, libPrefix) && !ex.W.initAllow[path]) || path == rtPkg {
			return nil, nil
		}
		ex.initDone[fn.Pkg] = true
	}
	if len(fn.Blocks) == 0 {
		panic(ex.unsupported("call to function without body: " + fn.String()))
	}
	if ex.depth > maxDepth {
		panic(ex.unsupported("call depth exceeded in " + fn.String()))
	}
	ex.funcsUsed[fn] = true
	fr := &Frame{fn: fn, env: make(map[ssa.Value]Value, 16), deferredBy: deferredBy}
	for i, p := range fn.Params {
		fr.env[p] = args[i]
	}
	for i, fv := range fn.FreeVars {
		fr.env[fv] = bind[i]
	}
	ex.stack = append(ex.stack, fr)
	ex.depth++
	defer func() {
		ex.stack = ex.stack[:len(ex.stack)-1]
		ex.depth--
	}()
	fr.block = fn.Blocks[0]
	return ex.run(fr)
}

func (ex *Exec) run(fr *Frame) (Value, *Panic) {
	for {
		blk := fr.block
		// loop monitor
		if len(blk.Preds) > 1 {
			if fr.visits == nil {
				fr.visits = map[*ssa.BasicBlock]int{}
			}
			fr.visits[blk]++
			bound := ex.loopBound
			if !ex.W.isLibFunc(fr.fn) {
				bound = ex.loopBound + 4096
			}
			if bound > 0 && fr.visits[blk] > bound {
				if ex.W.isLibFunc(fr.fn) {
					fr.ip = 0
					ex.reportSite("loop", "unwind", fmt.Sprintf("loop header visited more than %d times", bound))
					ex.endPath("loop-bound")
				}
				panic(ex.unsupported(fmt.Sprintf("loop bound exceeded in non-library function %s", fr.fn)))
			}
		}
		var next *ssa.BasicBlock
		var pan *Panic
		for i, instr := range blk.Instrs {
			fr.ip = i
			ex.instrs++
			if ex.workLimit > 0 && ex.instrs-ex.workBase > ex.workLimit {
				ex.workLimit = 0
				ex.reportSite("work", "budget", "more interpreted instructions than the harness allows for this input size (work not proportional to the input)")
				ex.endPath("work-limit")
			}
			if ex.instrs > ex.cfg.MaxInstrs {
				ex.inconcl = append(ex.inconcl, "instruction budget exceeded on a path")
				ex.endPath("instr-budget")
			}
			switch in := instr.(type) {
			case *ssa.Phi:
				// evaluated simultaneously on block entry (evalPhis)
				_ = in
			case *ssa.Jump:
				next = blk.Succs[0]
			case *ssa.If:
				c := ex.get(fr, in.Cond).(*Term)
				if ex.branch(c) {
					next = blk.Succs[0]
				} else {
					next = blk.Succs[1]
				}
			case *ssa.Return:
				var res Value
				switch len(in.Results) {
				case 0:
				case 1:
					res = ex.get(fr, in.Results[0])
				default:
					t := make(TupleV, len(in.Results))
					for k, r := range in.Results {
						t[k] = ex.get(fr, r)
					}
					res = t
				}
				// a normal return runs defers (RunDefers precedes Return in SSA), so just leave
				return res, nil
			case *ssa.Panic:
				pan = ex.explicitPanic(ex.get(fr, in.X))
			case *ssa.RunDefers:
				ex.runDefers(fr)
				if fr.panicking != nil {
					pan = fr.panicking
					fr.panicking = nil
				}
			default:
				pan = ex.step(fr, instr)
			}
			if pan != nil {
				break
			}
			if next != nil {
				break
			}
		}
		if pan != nil {
			// unwinding: run pending defers with the panic active
			fr.panicking = pan
			ex.runDefers(fr)
			if fr.panicking != nil {
				return nil, fr.panicking
			}
			// recovered
			if fr.fn.Recover != nil {
				fr.prev = blk
				fr.block = fr.fn.Recover
				continue
			}
			return ex.zeroResults(fr.fn), nil
		}
		if next == nil {
			panic(ex.unsupported("block without terminator in " + fr.fn.String()))
		}
		fr.lastPos = fr.curPos()
		fr.prev = blk
		fr.block = next
		// two-phase phi evaluation for the next block
		ex.evalPhis(fr)
	}
}

// evalPhis evaluates all phis of fr.block simultaneously w.r.t. fr.prev, then the main loop's
// per-instruction Phi case re-evaluates them identically (harmless) — so instead we precompute and
// make the Phi case a no-op by storing results here.
func (ex *Exec) evalPhis(fr *Frame) {
	blk := fr.block
	var idx = -1
	for k, pred := range blk.Preds {
		if pred == fr.prev {
			idx = k
			break
		}
	}
	if idx < 0 {
		return
	}
	var vals []Value
	var phis []*ssa.Phi
	for _, instr := range blk.Instrs {
		phi, ok := instr.(*ssa.Phi)
		if !ok {
			break
		}
		phis = append(phis, phi)
		vals = append(vals, ex.get(fr, phi.Edges[idx]))
	}
	for i, phi := range phis {
		fr.env[phi] = vals[i]
	}
}

func (ex *Exec) zeroResults(fn *ssa.Function) Value {
	res := fn.Signature.Results()
	switch res.Len() {
	case 0:
		return nil
	case 1:
		return ex.zero(res.At(0).Type(), nil)
	}
	return ex.zero(res, nil)
}

// runDefers executes pending deferred calls (LIFO). A panic in a deferred call replaces fr.panicking.
func (ex *Exec) runDefers(fr *Frame) {
	for len(fr.defers) > 0 {
		d := fr.defers[len(fr.defers)-1]
		fr.defers = fr.defers[:len(fr.defers)-1]
		var pan *Panic
		if d.intr != "" {
			_, pan = ex.callBuiltin(fr, d.intr, d.args, nil)
		} else {
			_, pan = ex.callFuncV(d.fn, d.args, fr)
		}
		if pan != nil {
			// a panic in a deferred call replaces the current one
			fr.panicking = pan
		}
	}
}

func (ex *Exec) callFuncV(f *FuncV, args []Value, deferredBy *Frame) (Value, *Panic) {
	if f == nil || f.fn == nil {
		return nil, ex.runtimePanic("nil", "invalid memory address or nil pointer dereference (nil func call)")
	}
	return ex.call(f.fn, args, f.bind, deferredBy)
}

// prepareCall resolves a CallCommon to either a function value + args, or a builtin name.
func (ex *Exec) prepareCall(fr *Frame, c *ssa.CallCommon) (fv *FuncV, builtin string, args []Value, pan *Panic) {
	if c.IsInvoke() {
		recv := ex.get(fr, c.Value)
		iv, ok := recv.(*IfaceV)
		if !ok || iv.t == nil {
			return nil, "", nil, ex.runtimePanic("nil", "invalid memory address or nil pointer dereference (method call on nil interface)")
		}
		fn := ex.lookupMethod(iv.t, c.Method)
		if fn == nil {
			panic(ex.unsupported(fmt.Sprintf("method %s not found on %s", c.Method.Name(), iv.t)))
		}
		args = append(args, iv.v)
		for _, a := range c.Args {
			args = append(args, ex.get(fr, a))
		}
		return &FuncV{fn: fn}, "", args, nil
	}
	for _, a := range c.Args {
		args = append(args, ex.get(fr, a))
	}
	switch v := c.Value.(type) {
	case *ssa.Builtin:
		return nil, v.Name(), args, nil
	case *ssa.Function:
		return &FuncV{fn: v}, "", args, nil
	}
	f := ex.get(fr, c.Value)
	fv, ok := f.(*FuncV)
	if !ok {
		panic(ex.unsupported(fmt.Sprintf("call of non-function value %T", f)))
	}
	return fv, "", args, nil
}

func (ex *Exec) lookupMethod(t types.Type, m *types.Func) *ssa.Function {
	ms := ex.W.prog.MethodSets.MethodSet(t)
	sel := ms.Lookup(m.Pkg(), m.Name())
	if sel == nil {
		return nil
	}
	return ex.W.prog.MethodValue(sel)
}

func (ex *Exec) step(fr *Frame, instr ssa.Instruction) *Panic {
	ts := ex.ts
	switch in := instr.(type) {
	case *ssa.DebugRef:
		return nil
	case *ssa.Alloc:
		fr.env[in] = ex.alloc(in.Type().(*types.Pointer).Elem(), in.Comment)
		return nil
	case *ssa.BinOp:
		v, pan := ex.binop(in.Op, ex.get(fr, in.X), ex.get(fr, in.Y), in.X.Type(), in.Y.Type())
		if pan != nil {
			return pan
		}
		fr.env[in] = v
		return nil
	case *ssa.UnOp:
		return ex.unop(fr, in)
	case *ssa.Call:
		fv, b, args, pan := ex.prepareCall(fr, &in.Call)
		if pan != nil {
			return pan
		}
		var res Value
		if b != "" {
			res, pan = ex.callBuiltin(fr, b, args, &in.Call)
		} else {
			res, pan = ex.callFuncV(fv, args, nil)
		}
		if pan != nil {
			return pan
		}
		fr.env[in] = res
		return nil
	case *ssa.Defer:
		fv, b, args, pan := ex.prepareCall(fr, &in.Call)
		if pan != nil {
			return pan
		}
		fr.defers = append(fr.defers, deferred{fn: fv, args: args, intr: b, call: &in.Call})
		return nil
	case *ssa.Go:
		// goroutines are not started: harnesses drive goroutine bodies directly (see DESIGN C10/C11)
		ex.stubsUsed["go statement (not executed)"] = true
		return nil
	case *ssa.ChangeInterface:
		fr.env[in] = ex.get(fr, in.X)
		return nil
	case *ssa.ChangeType:
		fr.env[in] = ex.get(fr, in.X)
		return nil
	case *ssa.Convert:
		fr.env[in] = ex.convert(ex.get(fr, in.X), in.X.Type(), in.Type())
		return nil
	case *ssa.MultiConvert:
		fr.env[in] = ex.convert(ex.get(fr, in.X), in.X.Type(), in.Type())
		return nil
	case *ssa.MakeInterface:
		fr.env[in] = &IfaceV{t: in.X.Type(), v: ex.get(fr, in.X)}
		return nil
	case *ssa.MakeClosure:
		var bind []Value
		for _, b := range in.Bindings {
			bind = append(bind, ex.get(fr, b))
		}
		fr.env[in] = &FuncV{fn: in.Fn.(*ssa.Function), bind: bind}
		return nil
	case *ssa.MakeMap:
		o := ex.newObj(in.Type(), "makemap")
		md := &MapData{own: o}
		o.slot = &OpaqueV{kind: "mapdata", x: md}
		fr.env[in] = &MapV{m: md}
		return nil
	case *ssa.MakeChan:
		sz := ex.get(fr, in.Size).(*Term)
		n := int(ex.concretize(sz, "chan size"))
		o := ex.newObj(in.Type(), "makechan")
		cd := &ChanData{cap: n, own: o}
		o.slot = &OpaqueV{kind: "chandata", x: cd}
		fr.env[in] = &ChanV{c: cd}
		return nil
	case *ssa.MakeSlice:
		ln := ex.get(fr, in.Len).(*Term)
		cp := ex.get(fr, in.Cap).(*Term)
		_, lsigned, _ := intWidth(in.Len.Type())
		_, csigned, _ := intWidth(in.Cap.Type())
		elemSize := (&types.StdSizes{WordSize: 8, MaxAlign: 8}).Sizeof(in.Type().Underlying().(*types.Slice).Elem())
		n, pan := ex.sizeArg(ln, lsigned, elemSize, "makeslice: len out of range")
		if pan != nil {
			return pan
		}
		c := n
		if cp != ln {
			c, pan = ex.sizeArg(cp, csigned, elemSize, "makeslice: cap out of range")
			if pan != nil {
				return pan
			}
			if c < n {
				return ex.runtimePanic("makeneg", "makeslice: cap out of range")
			}
		}
		elem := in.Type().Underlying().(*types.Slice).Elem()
		arr := ex.newArray(elem, c, "makeslice")
		fr.env[in] = &SliceV{arr: arr, off: 0, len: n, cap: c}
		return nil
	case *ssa.Slice:
		return ex.sliceOp(fr, in)
	case *ssa.FieldAddr:
		p := ex.get(fr, in.X).(*Ptr)
		if p.IsNil() {
			return ex.runtimePanic("nil", "invalid memory address or nil pointer dereference")
		}
		sv, ok := p.base.get(p.idx).(*StructV)
		if !ok {
			panic(ex.unsupported(fmt.Sprintf("FieldAddr on %T", p.base.get(p.idx))))
		}
		fr.env[in] = &Ptr{base: sv, idx: in.Field}
		return nil
	case *ssa.Field:
		sv := ex.get(fr, in.X).(*StructV)
		fr.env[in] = copyVal(sv.f[in.Field], nil)
		return nil
	case *ssa.IndexAddr:
		return ex.indexAddr(fr, in)
	case *ssa.Index:
		return ex.indexOp(fr, in)
	case *ssa.Lookup:
		return ex.lookup(fr, in)
	case *ssa.MapUpdate:
		m := ex.get(fr, in.Map).(*MapV)
		if m.m == nil {
			return ex.runtimePanic("nilmap", "assignment to entry in nil map")
		}
		k := ex.get(fr, in.Key)
		v := ex.get(fr, in.Value)
		ex.noteWrite(m.m.own)
		if i := ex.mapFind(m.m, k); i >= 0 {
			m.m.entries[i].v = copyVal(v, m.m.own)
		} else {
			m.m.entries = append(m.m.entries, mapEntry{k, copyVal(v, m.m.own)})
		}
		return nil
	case *ssa.Store:
		p := ex.get(fr, in.Addr).(*Ptr)
		if p.IsNil() {
			return ex.runtimePanic("nil", "invalid memory address or nil pointer dereference")
		}
		if w, ok := ex.sharedScalar(p); ok {
			if t, isT := ex.get(fr, in.Val).(*Term); isT {
				ex.recordAccess("store", p, w, t, false)
				return nil
			}
		}
		ex.noteWrite(p.base.owner())
		assignInto(p.base, p.idx, ex.get(fr, in.Val))
		return nil
	case *ssa.TypeAssert:
		return ex.typeAssert(fr, in)
	case *ssa.Extract:
		t := ex.get(fr, in.Tuple).(TupleV)
		fr.env[in] = t[in.Index]
		return nil
	case *ssa.Send:
		ch := ex.get(fr, in.Chan).(*ChanV)
		v := ex.get(fr, in.X)
		return ex.chanSend(ch, v)
	case *ssa.Select:
		return ex.selectOp(fr, in)
	case *ssa.Range:
		x := ex.get(fr, in.X)
		switch xv := x.(type) {
		case *MapV:
			var ents []mapEntry
			if xv.m != nil {
				ents = append(ents, xv.m.entries...)
			}
			ex.stubsUsed["map iteration in insertion order"] = true
			fr.env[in] = &OpaqueV{kind: "mapiter", x: &mapIter{ents: ents}}
		case StrV:
			fr.env[in] = &OpaqueV{kind: "striter", x: &strIter{s: string(xv)}}
		default:
			panic(ex.unsupported(fmt.Sprintf("range over %T", x)))
		}
		return nil
	case *ssa.Next:
		it := ex.get(fr, in.Iter).(*OpaqueV)
		switch iter := it.x.(type) {
		case *mapIter:
			if iter.i >= len(iter.ents) {
				tt := in.Type().(*types.Tuple)
				fr.env[in] = TupleV{ts.Fals, ex.zeroOrNil(tt.At(1).Type()), ex.zeroOrNil(tt.At(2).Type())}
			} else {
				e := iter.ents[iter.i]
				iter.i++
				fr.env[in] = TupleV{ts.True, e.k, copyVal(e.v, nil)}
			}
		case *strIter:
			if iter.i >= len(iter.s) {
				fr.env[in] = TupleV{ts.Fals, ts.Const(64, 0), ts.Const(32, 0)}
			} else {
				var r rune
				var sz int
				for k, rr := range iter.s[iter.i:] {
					if k == 0 {
						r = rr
					} else {
						sz = k
						break
					}
				}
				if sz == 0 {
					sz = len(iter.s) - iter.i
				}
				fr.env[in] = TupleV{ts.True, ts.Const(64, uint64(iter.i)), ts.Const(32, uint64(r))}
				iter.i += sz
			}
		}
		return nil
	}
	panic(ex.unsupported(fmt.Sprintf("instruction %T: %s", instr, instr)))
}

func (ex *Exec) zeroOrNil(t types.Type) Value {
	if b, ok := t.(*types.Basic); ok && b.Kind() == types.Invalid {
		return nil
	}
	return ex.zero(t, nil)
}

type mapIter struct {
	ents []mapEntry
	i    int
}
type strIter struct {
	s string
	i int
}

// sizeArg validates a make() size: negative → panic path; larger than the allocation limit →
// allocation finding. The harness's AllocLimit is in bytes (elements × element size); without
// one the cap is 2^20 elements.
func (ex *Exec) sizeArg(t *Term, signed bool, elemSize int64, msg string) (int, *Panic) {
	if t.w != 64 {
		t = ex.ts.Resize(t, 64, signed) // make sizes may be of any integer type
	}
	neg := ex.ts.Cmp(OpSlt, t, ex.ts.Const(64, 0))
	if pan := ex.guard(ex.ts.Not(neg), "makeneg", msg); pan != nil {
		return 0, pan
	}
	lim := 1 << 20
	what := fmt.Sprintf("%d elements", lim)
	if ex.allocLimit > 0 {
		if elemSize < 1 {
			elemSize = 1
		}
		lim = ex.allocLimit / int(elemSize)
		what = fmt.Sprintf("%d bytes (%d elements of %d bytes)", ex.allocLimit, lim, elemSize)
	}
	if ex.allocLimit > 0 {
		// cumulative: what this path has allocated with make since AllocLimit, plus this one
		lim = (ex.allocLimit - ex.allocTotal) / int(elemSize)
		if lim < 0 {
			lim = 0
		}
		what = fmt.Sprintf("%d bytes in total (%d already allocated, element size %d)", ex.allocLimit, ex.allocTotal, elemSize)
	}
	big := ex.ts.Cmp(OpSlt, ex.ts.Const(64, uint64(lim)), t)
	if !big.IsFalse() {
		if ex.branch(big) {
			ex.reportSite("alloc", "oversize", "allocations can exceed "+what)
			ex.endPath("alloc-limit")
		}
	}
	n := int(ex.concretize(t, "make size"))
	ex.allocTotal += n * int(elemSize)
	return n, nil
}

func (ex *Exec) noteWrite(o *Obj) {
	if o == nil {
		return
	}
	if o.shared && !ex.inInit && ex.monitorShared {
		ex.sharedWrites++
		name := o.global
		if name == "" {
			name = "object reachable from a package-level variable (" + o.site + ")"
		}
		ex.reportSite("shared-write", "store", "write to shared state: "+name)
	}
	if o.xfer {
		ex.reportSite("ownership", "write-after-transfer", "write to an object after it was sent on a channel ("+o.site+")")
	}
}

func (ex *Exec) noteRead(o *Obj) {
	if o != nil && o.xfer {
		ex.reportSite("ownership", "read-after-transfer", "read of an object after it was sent on a channel ("+o.site+")")
	}
}

// ---- unary ops ----

func (ex *Exec) unop(fr *Frame, in *ssa.UnOp) *Panic {
	x := ex.get(fr, in.X)
	switch in.Op {
	case token.MUL: // load
		p := x.(*Ptr)
		if p.IsNil() {
			return ex.runtimePanic("nil", "invalid memory address or nil pointer dereference")
		}
		if w, ok := ex.sharedScalar(p); ok {
			fr.env[in] = ex.recordAccess("load", p, w, nil, false)
			return nil
		}
		ex.noteRead(p.base.owner())
		fr.env[in] = copyVal(p.base.get(p.idx), nil)
	case token.NOT:
		fr.env[in] = ex.ts.Not(x.(*Term))
	case token.SUB:
		if o, ok := x.(*OpaqueV); ok && o.kind == "float" {
			fr.env[in] = &OpaqueV{kind: "float", x: -o.x.(float64)}
			return nil
		}
		fr.env[in] = ex.ts.Neg(x.(*Term))
	case token.XOR:
		fr.env[in] = ex.ts.Not(x.(*Term))
	case token.ARROW:
		ch := x.(*ChanV)
		v, ok, pan := ex.chanRecv(ch, in.Type(), in.CommaOk)
		if pan != nil {
			return pan
		}
		if in.CommaOk {
			fr.env[in] = TupleV{v, ex.ts.Bool(ok)}
		} else {
			fr.env[in] = v
		}
	default:
		panic(ex.unsupported("unop " + in.Op.String()))
	}
	return nil
}

// ---- binary ops ----

func (ex *Exec) binop(op token.Token, x, y Value, xt, yt types.Type) (Value, *Panic) {
	ts := ex.ts
	switch xv := x.(type) {
	case *Term:
		yv, ok := y.(*Term)
		if !ok {
			panic(ex.unsupported(fmt.Sprintf("binop %s on Term and %T", op, y)))
		}
		w, signed, _ := intWidth(xt)
		if w == 0 {
			switch op {
			case token.EQL:
				return ts.BoolEq(xv, yv), nil
			case token.NEQ:
				return ts.Not(ts.BoolEq(xv, yv)), nil
			case token.AND:
				return ts.And(xv, yv), nil
			case token.OR:
				return ts.Or(xv, yv), nil
			case token.LAND:
				return ts.And(xv, yv), nil
			case token.LOR:
				return ts.Or(xv, yv), nil
			}
			panic(ex.unsupported("bool binop " + op.String()))
		}
		switch op {
		case token.ADD:
			return ts.Bin(OpAdd, xv, yv), nil
		case token.SUB:
			return ts.Bin(OpSub, xv, yv), nil
		case token.MUL:
			return ts.Bin(OpMul, xv, yv), nil
		case token.QUO, token.REM:
			if pan := ex.guard(ts.Not(ts.Cmp(OpEq, yv, ts.Const(w, 0))), "divzero", "integer divide by zero"); pan != nil {
				return nil, pan
			}
			var o Op
			switch {
			case op == token.QUO && signed:
				o = OpSDiv
			case op == token.QUO:
				o = OpUDiv
			case signed:
				o = OpSRem
			default:
				o = OpURem
			}
			return ts.Bin(o, xv, yv), nil
		case token.AND:
			return ts.Bin(OpAnd, xv, yv), nil
		case token.OR:
			return ts.Bin(OpOr, xv, yv), nil
		case token.XOR:
			return ts.Bin(OpXor, xv, yv), nil
		case token.AND_NOT:
			return ts.Bin(OpAnd, xv, ts.Not(yv)), nil
		case token.SHL, token.SHR:
			return ex.shift(op, xv, yv, signed, yt)
		case token.EQL:
			return ts.Cmp(OpEq, xv, yv), nil
		case token.NEQ:
			return ts.Not(ts.Cmp(OpEq, xv, yv)), nil
		case token.LSS:
			if signed {
				return ts.Cmp(OpSlt, xv, yv), nil
			}
			return ts.Cmp(OpUlt, xv, yv), nil
		case token.LEQ:
			if signed {
				return ts.Cmp(OpSle, xv, yv), nil
			}
			return ts.Cmp(OpUle, xv, yv), nil
		case token.GTR:
			if signed {
				return ts.Cmp(OpSlt, yv, xv), nil
			}
			return ts.Cmp(OpUlt, yv, xv), nil
		case token.GEQ:
			if signed {
				return ts.Cmp(OpSle, yv, xv), nil
			}
			return ts.Cmp(OpUle, yv, xv), nil
		}
		panic(ex.unsupported("int binop " + op.String()))
	case StrV:
		ys := y.(StrV)
		switch op {
		case token.ADD:
			return xv + ys, nil
		case token.EQL:
			return ts.Bool(xv == ys), nil
		case token.NEQ:
			return ts.Bool(xv != ys), nil
		case token.LSS:
			return ts.Bool(xv < ys), nil
		case token.LEQ:
			return ts.Bool(xv <= ys), nil
		case token.GTR:
			return ts.Bool(xv > ys), nil
		case token.GEQ:
			return ts.Bool(xv >= ys), nil
		}
	case *OpaqueV:
		if xv.kind == "float" {
			yf := y.(*OpaqueV).x.(float64)
			xf := xv.x.(float64)
			switch op {
			case token.ADD:
				return &OpaqueV{kind: "float", x: xf + yf}, nil
			case token.SUB:
				return &OpaqueV{kind: "float", x: xf - yf}, nil
			case token.MUL:
				return &OpaqueV{kind: "float", x: xf * yf}, nil
			case token.QUO:
				return &OpaqueV{kind: "float", x: xf / yf}, nil
			case token.LSS:
				return ts.Bool(xf < yf), nil
			case token.GTR:
				return ts.Bool(xf > yf), nil
			case token.LEQ:
				return ts.Bool(xf <= yf), nil
			case token.GEQ:
				return ts.Bool(xf >= yf), nil
			case token.EQL:
				return ts.Bool(xf == yf), nil
			case token.NEQ:
				return ts.Bool(xf != yf), nil
			}
		}
	}
	switch op {
	case token.EQL:
		return ex.valEq(x, y), nil
	case token.NEQ:
		return ts.Not(ex.valEq(x, y)), nil
	}
	panic(ex.unsupported(fmt.Sprintf("binop %s on %T, %T", op, x, y)))
}

func (ex *Exec) shift(op token.Token, x, y *Term, xsigned bool, yt types.Type) (Value, *Panic) {
	ts := ex.ts
	_, ysigned, _ := intWidth(yt)
	if ysigned {
		neg := ts.Cmp(OpSlt, y, ts.Const(y.w, 0))
		if pan := ex.guard(ts.Not(neg), "negshift", "negative shift amount"); pan != nil {
			return nil, pan
		}
	}
	w := x.w
	var o Op
	switch {
	case op == token.SHL:
		o = OpShl
	case xsigned:
		o = OpAShr
	default:
		o = OpLShr
	}
	if y.w <= w {
		return ts.Bin(o, x, ts.ZExt(y, w)), nil
	}
	// y wider than x: saturate
	over := ts.Cmp(OpUle, ts.Const(y.w, uint64(w)), y)
	var sat *Term
	if o == OpAShr {
		sat = ts.Bin(OpAShr, x, ts.Const(w, uint64(w-1)))
	} else {
		sat = ts.Const(w, 0)
	}
	return ts.Ite(over, sat, ts.Bin(o, x, ts.Extract(y, w-1, 0))), nil
}

// valEq compares two non-scalar-typed values (pointers, interfaces, structs, arrays, chans, funcs-to-nil).
func (ex *Exec) valEq(x, y Value) *Term {
	ts := ex.ts
	switch xv := x.(type) {
	case *Term:
		if yv, ok := y.(*Term); ok {
			if xv.w != yv.w {
				return ts.Fals
			}
			if xv.w == 0 {
				return ts.BoolEq(xv, yv)
			}
			return ts.Cmp(OpEq, xv, yv)
		}
		return ts.Fals
	case StrV:
		ys, ok := y.(StrV)
		return ts.Bool(ok && xv == ys)
	case *Ptr:
		yv, ok := y.(*Ptr)
		if !ok {
			return ts.Fals
		}
		if xv.IsNil() || yv.IsNil() {
			return ts.Bool(xv.IsNil() && yv.IsNil())
		}
		return ts.Bool(xv.base == yv.base && xv.idx == yv.idx)
	case *IfaceV:
		yv, ok := y.(*IfaceV)
		if !ok {
			return ts.Fals
		}
		if xv.t == nil || yv.t == nil {
			return ts.Bool(xv.t == nil && yv.t == nil)
		}
		if !types.Identical(xv.t, yv.t) {
			return ts.Fals
		}
		return ex.valEq(xv.v, yv.v)
	case *StructV:
		yv := y.(*StructV)
		r := ts.True
		for i := range xv.f {
			r = ts.And(r, ex.valEq(xv.f[i], yv.f[i]))
		}
		return r
	case *ArrayV:
		yv := y.(*ArrayV)
		r := ts.True
		for i := range xv.e {
			r = ts.And(r, ex.valEq(xv.e[i], yv.e[i]))
		}
		return r
	case *SliceV:
		yv := y.(*SliceV)
		if xv.arr == nil || yv.arr == nil {
			return ts.Bool(xv.arr == nil && yv.arr == nil)
		}
		panic(ex.unsupported("slice comparison"))
	case *MapV:
		yv := y.(*MapV)
		if xv.m == nil || yv.m == nil {
			return ts.Bool(xv.m == nil && yv.m == nil)
		}
		return ts.Bool(xv.m == yv.m)
	case *ChanV:
		yv := y.(*ChanV)
		return ts.Bool(xv.c == yv.c)
	case *FuncV:
		yv := y.(*FuncV)
		if xv.fn == nil || yv.fn == nil {
			return ts.Bool(xv.fn == nil && yv.fn == nil)
		}
		panic(ex.unsupported("func comparison"))
	case nil:
		return ts.Bool(y == nil)
	}
	panic(ex.unsupported(fmt.Sprintf("valEq on %T", x)))
}

// ---- conversions ----

func (ex *Exec) convert(x Value, from, to types.Type) Value {
	ts := ex.ts
	if xt, ok := x.(*Term); ok {
		_, fs, fok := intWidth(from)
		tw, _, tok := intWidth(to)
		if fok && tok {
			return ts.Resize(xt, tw, fs)
		}
		if isString(to) && fok {
			// string(rune)
			if !xt.IsConst() {
				// strings are concrete in the engine: fork on the value (a byte has 256)
				v := ex.concretize(xt, "string(rune)")
				if fs {
					v = uint64(ts.Const(xt.w, v).Int())
				}
				return StrV(string(rune(v)))
			}
			return StrV(string(rune(xt.Int())))
		}
		if isFloat(to) && xt.IsConst() {
			if fs {
				return &OpaqueV{kind: "float", x: float64(xt.Int())}
			}
			return &OpaqueV{kind: "float", x: float64(xt.Uint())}
		}
		if b, ok := to.Underlying().(*types.Basic); ok && b.Kind() == types.UnsafePointer {
			panic(ex.unsupported("int to unsafe.Pointer"))
		}
	}
	if o, ok := x.(*OpaqueV); ok && o.kind == "float" {
		if tw, _, ok := intWidth(to); ok {
			return ts.Const(tw, uint64(int64(o.x.(float64))))
		}
		if isFloat(to) {
			return x
		}
	}
	if s, ok := x.(StrV); ok {
		if isString(to) {
			return s
		}
		if sl, ok := to.Underlying().(*types.Slice); ok {
			if w, _, ok := intWidth(sl.Elem()); ok && w == 8 {
				arr := ex.newArray(sl.Elem(), len(s), "[]byte(string)")
				for i := 0; i < len(s); i++ {
					arr.e[i] = ts.Const(8, uint64(s[i]))
				}
				return &SliceV{arr: arr, off: 0, len: len(s), cap: len(s)}
			}
		}
	}
	if sl, ok := x.(*SliceV); ok {
		if isString(to) {
			buf := make([]byte, sl.len)
			for i := 0; i < sl.len; i++ {
				t := sl.arr.e[sl.off+i].(*Term)
				if !t.IsConst() {
					ex.stubsUsed["string(symbolic bytes) rendered with '?' placeholders"] = true
					buf[i] = '?'
					continue
				}
				buf[i] = byte(t.k)
			}
			return StrV(string(buf))
		}
		if _, ok := to.Underlying().(*types.Slice); ok {
			return x
		}
	}
	if _, ok := x.(*Ptr); ok {
		return x // pointer <-> unsafe.Pointer
	}
	panic(ex.unsupported(fmt.Sprintf("convert %s -> %s (%T)", from, to, x)))
}

// ---- slices / indexing ----

func (ex *Exec) intArg(fr *Frame, v ssa.Value) *Term {
	t := ex.get(fr, v).(*Term)
	_, signed, _ := intWidth(v.Type())
	return ex.ts.Resize(t, 64, signed)
}

func (ex *Exec) sliceOp(fr *Frame, in *ssa.Slice) *Panic {
	ts := ex.ts
	x := ex.get(fr, in.X)
	var arr *ArrayV
	var off, ln, cp int
	isStr := false
	var str string
	switch xv := x.(type) {
	case *SliceV:
		arr, off, ln, cp = xv.arr, xv.off, xv.len, xv.cap
	case *Ptr:
		if xv.IsNil() {
			return ex.runtimePanic("nil", "invalid memory address or nil pointer dereference (slice of nil array pointer)")
		}
		a, ok := xv.base.get(xv.idx).(*ArrayV)
		if !ok {
			panic(ex.unsupported("slice of pointer to non-array"))
		}
		arr, off, ln, cp = a, 0, len(a.e), len(a.e)
	case StrV:
		isStr = true
		str = string(xv)
		ln, cp = len(str), len(str)
	default:
		panic(ex.unsupported(fmt.Sprintf("slice of %T", x)))
	}
	c64 := func(n int) *Term { return ts.Const(64, uint64(n)) }
	lo, hi, mx := c64(0), c64(ln), c64(cp)
	if in.Low != nil {
		lo = ex.intArg(fr, in.Low)
	}
	if in.High != nil {
		hi = ex.intArg(fr, in.High)
	}
	if in.Max != nil {
		mx = ex.intArg(fr, in.Max)
	}
	// bounds: 0 <= lo <= hi <= max <= cap  (for strings hi <= len)
	limit := cp
	if isStr {
		limit = ln
	}
	var ok *Term
	if in.Max != nil {
		ok = ts.And(ts.Cmp(OpUle, mx, c64(limit)), ts.And(ts.Cmp(OpUle, hi, mx), ts.Cmp(OpUle, lo, hi)))
	} else {
		ok = ts.And(ts.Cmp(OpUle, hi, c64(limit)), ts.Cmp(OpUle, lo, hi))
	}
	if pan := ex.guard(ok, "bounds", "slice bounds out of range"); pan != nil {
		return pan
	}
	l := int(ex.concretize(lo, "slice low"))
	h := int(ex.concretize(hi, "slice high"))
	m := cp
	if in.Max != nil {
		m = int(ex.concretize(mx, "slice max"))
	}
	if isStr {
		fr.env[in] = StrV(str[l:h])
		return nil
	}
	if arr == nil {
		// slicing a nil slice [0:0]
		fr.env[in] = nilSlice
		return nil
	}
	fr.env[in] = &SliceV{arr: arr, off: off + l, len: h - l, cap: m - l}
	return nil
}

func (ex *Exec) indexAddr(fr *Frame, in *ssa.IndexAddr) *Panic {
	x := ex.get(fr, in.X)
	idx := ex.intArg(fr, in.Index)
	var arr *ArrayV
	var off, ln int
	switch xv := x.(type) {
	case *SliceV:
		arr, off, ln = xv.arr, xv.off, xv.len
	case *Ptr:
		if xv.IsNil() {
			return ex.runtimePanic("nil", "invalid memory address or nil pointer dereference")
		}
		a, ok := xv.base.get(xv.idx).(*ArrayV)
		if !ok {
			panic(ex.unsupported("IndexAddr on pointer to non-array"))
		}
		arr, off, ln = a, 0, len(a.e)
	default:
		panic(ex.unsupported(fmt.Sprintf("IndexAddr on %T", x)))
	}
	ok := ex.ts.Cmp(OpUlt, idx, ex.ts.Const(64, uint64(ln)))
	if pan := ex.guard(ok, "bounds", "index out of range"); pan != nil {
		return pan
	}
	i := int(ex.concretize(idx, "index"))
	fr.env[in] = &Ptr{base: arr, idx: off + i}
	return nil
}

func (ex *Exec) indexOp(fr *Frame, in *ssa.Index) *Panic {
	x := ex.get(fr, in.X)
	idx := ex.intArg(fr, in.Index)
	switch xv := x.(type) {
	case *ArrayV:
		ok := ex.ts.Cmp(OpUlt, idx, ex.ts.Const(64, uint64(len(xv.e))))
		if pan := ex.guard(ok, "bounds", "index out of range"); pan != nil {
			return pan
		}
		i := int(ex.concretize(idx, "index"))
		fr.env[in] = copyVal(xv.e[i], nil)
		return nil
	case StrV:
		ok := ex.ts.Cmp(OpUlt, idx, ex.ts.Const(64, uint64(len(xv))))
		if pan := ex.guard(ok, "bounds", "index out of range"); pan != nil {
			return pan
		}
		i := int(ex.concretize(idx, "index"))
		fr.env[in] = ex.ts.Const(8, uint64(xv[i]))
		return nil
	}
	panic(ex.unsupported(fmt.Sprintf("Index on %T", x)))
}

func (ex *Exec) mapFind(m *MapData, k Value) int {
	for i, e := range m.entries {
		eq := ex.valEq(e.k, k)
		if eq.IsTrue() {
			return i
		}
		if !eq.IsFalse() {
			// symbolic key: fork
			if ex.branch(eq) {
				return i
			}
		}
	}
	return -1
}

func (ex *Exec) lookup(fr *Frame, in *ssa.Lookup) *Panic {
	x := ex.get(fr, in.X)
	switch xv := x.(type) {
	case *MapV:
		k := ex.get(fr, in.Index)
		var v Value
		found := false
		if xv.m != nil {
			ex.noteRead(xv.m.own)
			if i := ex.mapFind(xv.m, k); i >= 0 {
				v = copyVal(xv.m.entries[i].v, nil)
				found = true
			}
		}
		if !found {
			mt := in.X.Type().Underlying().(*types.Map)
			v = ex.zero(mt.Elem(), nil)
		}
		if in.CommaOk {
			fr.env[in] = TupleV{v, ex.ts.Bool(found)}
		} else {
			fr.env[in] = v
		}
		return nil
	case StrV:
		idx := ex.intArg(fr, in.Index)
		ok := ex.ts.Cmp(OpUlt, idx, ex.ts.Const(64, uint64(len(xv))))
		if pan := ex.guard(ok, "bounds", "index out of range"); pan != nil {
			return pan
		}
		i := int(ex.concretize(idx, "index"))
		fr.env[in] = ex.ts.Const(8, uint64(xv[i]))
		return nil
	}
	panic(ex.unsupported(fmt.Sprintf("Lookup on %T", x)))
}

func (ex *Exec) typeAssert(fr *Frame, in *ssa.TypeAssert) *Panic {
	x := ex.get(fr, in.X).(*IfaceV)
	at := in.AssertedType
	ok := false
	var res Value
	if x.t != nil {
		if types.IsInterface(at) {
			if ex.implements(x.t, at) {
				ok = true
				res = x
			}
		} else if types.Identical(x.t, at) {
			ok = true
			res = x.v
		}
	}
	if in.CommaOk {
		if !ok {
			res = ex.zero(at, nil)
		}
		fr.env[in] = TupleV{res, ex.ts.Bool(ok)}
		return nil
	}
	if !ok {
		dyn := "nil"
		if x.t != nil {
			dyn = x.t.String()
		}
		return ex.runtimePanic("typeassert", "interface conversion: interface is "+dyn+", not "+at.String())
	}
	fr.env[in] = res
	return nil
}

func (ex *Exec) implements(t types.Type, iface types.Type) bool {
	it := iface.Underlying().(*types.Interface)
	return types.Implements(t, it)
}

// ---- channels (single-goroutine semantics) ----

func (ex *Exec) chanSend(ch *ChanV, v Value) *Panic {
	if ch.c == nil {
		ex.endPath("blocked: send on nil channel")
	}
	if ch.c.closed {
		return ex.explicitPanic(&IfaceV{t: ex.W.runtimeErrorType(), v: StrV("send on closed channel")})
	}
	if len(ch.c.buf) >= ch.c.cap {
		ex.endPath("blocked: send on full channel")
	}
	ch.c.buf = append(ch.c.buf, v)
	ex.W.hookSend(ex, ch, v)
	return nil
}

func (ex *Exec) chanRecv(ch *ChanV, t types.Type, commaOk bool) (Value, bool, *Panic) {
	if ch.c == nil {
		ex.endPath("blocked: receive from nil channel")
	}
	if len(ch.c.buf) == 0 {
		if ch.c.closed {
			et := t
			if commaOk {
				et = t.(*types.Tuple).At(0).Type()
			}
			return ex.zero(et, nil), false, nil
		}
		ex.endPath("blocked: receive from empty channel")
	}
	v := ch.c.buf[0]
	ch.c.buf = ch.c.buf[1:]
	ex.W.hookRecv(ex, ch, v)
	return v, true, nil
}

func (ex *Exec) selectOp(fr *Frame, in *ssa.Select) *Panic {
	var ready []int
	for i, st := range in.States {
		ch := ex.get(fr, st.Chan).(*ChanV)
		if ch.c == nil {
			continue
		}
		if st.Dir == types.SendOnly {
			if ch.c.closed || len(ch.c.buf) < ch.c.cap {
				ready = append(ready, i)
			}
		} else {
			if len(ch.c.buf) > 0 || ch.c.closed {
				ready = append(ready, i)
			}
		}
	}
	tt := in.Type().(*types.Tuple)
	res := make(TupleV, tt.Len())
	for i := range res {
		res[i] = ex.zero(tt.At(i).Type(), nil)
	}
	if len(ready) == 0 {
		if in.Blocking {
			ex.endPath("blocked: select with no ready case")
		}
		res[0] = ex.ts.Const(64, ^uint64(0))
		fr.env[in] = res
		return nil
	}
	pick := ready[0]
	if len(ready) > 1 {
		pick = ready[ex.choose(len(ready), "select")]
	}
	st := in.States[pick]
	ch := ex.get(fr, st.Chan).(*ChanV)
	res[0] = ex.ts.Const(64, uint64(pick))
	if st.Dir == types.SendOnly {
		if pan := ex.chanSend(ch, ex.get(fr, st.Send)); pan != nil {
			return pan
		}
	} else {
		// position of this receive among receive states
		ri := 0
		for i := 0; i < pick; i++ {
			if in.States[i].Dir == types.RecvOnly {
				ri++
			}
		}
		v, ok, pan := ex.chanRecv(ch, tt.At(2+ri).Type(), false)
		if pan != nil {
			return pan
		}
		res[1] = ex.ts.Bool(ok)
		res[2+ri] = v
	}
	fr.env[in] = res
	return nil
}

// hooks for the ownership monitor
func (w *World) hookSend(ex *Exec, ch *ChanV, v Value) {
	if !ex.cfg.Ownership {
		return
	}
	if p, ok := v.(*Ptr); ok && !p.IsNil() {
		if o := p.base.owner(); o != nil {
			markTransferred(p, true)
		}
	}
}

func (w *World) hookRecv(ex *Exec, ch *ChanV, v Value) {
	if !ex.cfg.Ownership {
		return
	}
	if p, ok := v.(*Ptr); ok && !p.IsNil() {
		markTransferred(p, false)
	}
}

// markTransferred flags the pointee object and the arrays its slice fields reference.
func markTransferred(p *Ptr, on bool) {
	o := p.base.owner()
	if o == nil {
		return
	}
	o.xfer = on
	var walk func(v Value)
	walk = func(v Value) {
		switch x := v.(type) {
		case *StructV:
			for _, f := range x.f {
				walk(f)
			}
		case *SliceV:
			if x.arr != nil && x.arr.own != nil {
				x.arr.own.xfer = on
			}
		}
	}
	walk(o.slot)
}
