package main

// check / replay / selftest commands: exploration, known-finding matching, native replay,
// differential validation, cross-solver diff, evidence.

import (
	"bufio"
	"bytes"
	"crypto/sha1"
	"encoding/json"
	"flag"
	"fmt"
	"os"
	"os/exec"
	"path/filepath"
	"runtime"
	"sort"
	"strings"
	"sync"
	"time"
)

type KnownFinding struct {
	Status   string `json:"status"` // known | fixed
	Property string `json:"property"`
	Key      string `json:"key"`
	What     string `json:"what"`
	Commit   string `json:"commit,omitempty"`
}

func loadKnown(path string) ([]KnownFinding, error) {
	data, err := os.ReadFile(path)
	if err != nil {
		if os.IsNotExist(err) {
			return nil, nil
		}
		return nil, err
	}
	var ks []KnownFinding
	if err := json.Unmarshal(data, &ks); err != nil {
		return nil, err
	}
	return ks, nil
}

// properties whose thorough tier keeps the quick tier's harness bounds (see cmdCheck)
var noThoroughWidening = map[string]bool{"C02": true, "C03": true, "C04": true, "C06": true, "C07": true}

type nativeResult struct {
	Harness    string   `json:"harness"`
	Outcome    string   `json:"outcome"`
	Panic      string   `json:"panic,omitempty"`
	Observes   []string `json:"observes"`
	AllocBytes uint64   `json:"alloc_bytes,omitempty"`
	OverAlloc  bool     `json:"over_alloc,omitempty"` // allocated more than the harness's AllocLimit
}

// Native builds and runs harnesses natively against the real library (overlay, no repo changes).
type Native struct {
	w      *World
	hdir   string
	tmp    string
	bins   map[string]string // pkg path -> test binary
	mu     sync.Mutex
	buildS float64
}

func NewNative(w *World, hdir string) (*Native, error) {
	tmp, err := os.MkdirTemp("", "symgo-native-")
	if err != nil {
		return nil, err
	}
	return &Native{w: w, hdir: hdir, tmp: tmp, bins: map[string]string{}}, nil
}

func (n *Native) Close() { os.RemoveAll(n.tmp) }

func (n *Native) binFor(pkg string) (string, error) {
	n.mu.Lock()
	defer n.mu.Unlock()
	if b, ok := n.bins[pkg]; ok {
		return b, nil
	}
	t0 := time.Now()
	rel := strings.TrimPrefix(strings.TrimPrefix(pkg, libPrefix), "/")
	p := n.w.pkgs[pkg]
	var names []string
	for name := range p.Members {
		if strings.HasPrefix(name, "Verif") {
			if fn := p.Func(name); fn != nil && fn.Signature.Params().Len() == 0 && fn.Signature.Results().Len() == 0 {
				names = append(names, name)
			}
		}
	}
	sort.Strings(names)
	var sb strings.Builder
	sb.WriteString("//go:build verif\n\npackage " + p.Pkg.Name() + "\n\nimport (\n\t\"testing\"\n\tvr \"" + rtPkg + "\"\n)\n\n")
	sb.WriteString("func TestVerifReplay(t *testing.T) {\n\tvr.Main(map[string]func(){\n")
	for _, nm := range names {
		fmt.Fprintf(&sb, "\t\t%q: %s,\n", nm, nm)
	}
	sb.WriteString("\t})\n}\n")
	tag := strings.ReplaceAll(rel, "/", "_")
	if tag == "" {
		tag = "root"
	}
	testFile := filepath.Join(n.tmp, "replay_"+tag+"_test.go")
	if err := os.WriteFile(testFile, []byte(sb.String()), 0o644); err != nil {
		return "", err
	}
	repl := map[string]string{}
	for virt := range n.w.overlay {
		// overlay contents come from files under hdir; map virtual -> real path
		relv, _ := filepath.Rel(n.w.repo, virt)
		real := filepath.Join(n.hdir, relv)
		if _, err := os.Stat(real); err != nil {
			real = filepath.Join(n.hdir, "root", relv)
		}
		repl[virt] = real
	}
	repl[filepath.Join(n.w.repo, rel, "zz_verif_replay_test.go")] = testFile
	ov, _ := json.Marshal(map[string]interface{}{"Replace": repl})
	ovFile := filepath.Join(n.tmp, "overlay_"+tag+".json")
	os.WriteFile(ovFile, ov, 0o644)
	bin := filepath.Join(n.tmp, tag+".test")
	target := "./" + rel
	if rel == "" {
		target = "."
	}
	cmd := exec.Command("go", "test", "-c", "-vet=off", "-tags", "verif", "-overlay", ovFile, "-o", bin, target)
	cmd.Dir = n.w.repo
	cmd.Env = append(os.Environ(), "GOFLAGS=-mod=readonly", "GOPROXY=off", "GOSUMDB=off", "GOTOOLCHAIN=local")
	out, err := cmd.CombinedOutput()
	if err != nil {
		return "", fmt.Errorf("native build of %s failed: %v\n%s", pkg, err, out)
	}
	n.bins[pkg] = bin
	n.buildS += time.Since(t0).Seconds()
	return bin, nil
}

// Run executes cases natively; each result is nil if the process did not produce one
// (crash, timeout). timeout applies to the whole batch.
func (n *Native) Run(pkg string, cases []replayCase, timeout time.Duration) ([]*nativeResult, string, error) {
	bin, err := n.binFor(pkg)
	if err != nil {
		return nil, "", err
	}
	f, err := os.CreateTemp(n.tmp, "cases-*.json")
	if err != nil {
		return nil, "", err
	}
	data, _ := json.Marshal(cases)
	f.Write(data)
	f.Close()
	defer os.Remove(f.Name())
	cmd := exec.Command("timeout", "-s", "KILL", fmt.Sprintf("%d", int(timeout.Seconds())), bin, "-test.run", "^TestVerifReplay$", "-test.timeout", "0")
	cmd.Env = append(os.Environ(), "VERIF_REPLAY="+f.Name(), "GOMEMLIMIT=1GiB")
	cmd.Dir = n.tmp
	var outb bytes.Buffer
	cmd.Stdout = &outb
	cmd.Stderr = &outb
	runErr := cmd.Run()
	results := make([]*nativeResult, len(cases))
	i := 0
	sc := bufio.NewScanner(&outb)
	sc.Buffer(make([]byte, 1<<22), 1<<22)
	var tail []string
	for sc.Scan() {
		line := sc.Text()
		if strings.HasPrefix(line, "VERIF-RESULT ") {
			var r nativeResult
			if json.Unmarshal([]byte(strings.TrimPrefix(line, "VERIF-RESULT ")), &r) == nil && i < len(results) {
				results[i] = &r
				i++
			}
		} else {
			tail = append(tail, line)
			if len(tail) > 15 {
				tail = tail[1:]
			}
		}
	}
	status := "ok"
	if runErr != nil {
		status = runErr.Error()
	}
	return results, status + "\n" + strings.Join(tail, "\n"), nil
}

// RunEach runs cases in a batch, then individually those that produced no result.
func (n *Native) RunEach(pkg string, cases []replayCase, perCase time.Duration) ([]*nativeResult, []string, error) {
	notes := make([]string, len(cases))
	res, _, err := n.Run(pkg, cases, perCase+time.Duration(len(cases))*time.Second)
	if err != nil {
		return nil, nil, err
	}
	for i := range cases {
		if res[i] != nil {
			continue
		}
		one, status, err := n.Run(pkg, cases[i:i+1], perCase)
		if err != nil {
			return nil, nil, err
		}
		res[i] = one[0]
		if one[0] == nil {
			notes[i] = status
		}
	}
	return res, notes, nil
}

func caseID(c replayCase) string {
	b, _ := json.Marshal(c)
	return fmt.Sprintf("%x", sha1.Sum(b))[:12]
}

// expectedOutcome maps a finding to the native outcome that confirms it.
func expectedOutcome(f *Finding) string {
	switch f.Kind {
	case "panic":
		return "panic"
	case "assert":
		return "assert-fail:" + f.Label
	case "loop", "work":
		return "no-result" // must not finish within the time limit (or die of memory exhaustion)
	case "alloc":
		return "alloc"
	case "fatal":
		return "process-exit"
	}
	return "monitor"
}

func cmdCheck(args []string) int {
	fs := flag.NewFlagSet("check", flag.ExitOnError)
	repo := fs.String("repo", "/repo", "repository")
	vdir := fs.String("verif", "/verif", "verif directory")
	prop := fs.String("prop", "", "property id")
	tier := fs.String("tier", "quick", "quick|thorough")
	workers := fs.Int("j", runtime.NumCPU(), "workers")
	only := fs.String("only", "", "substring filter on harness names (development)")
	noNative := fs.Bool("no-native", false, "skip native replay (development)")
	triage := fs.Bool("triage", false, "print unknown findings as known_findings.json entries")
	fs.Parse(args)
	if *prop == "" {
		fmt.Fprintln(os.Stderr, "check: -prop required")
		return 2
	}
	seed := int64(1)
	if s := os.Getenv("VERIF_SEED"); s != "" {
		fmt.Sscan(s, &seed)
	}
	if t := os.Getenv("VERIF_TIER"); t == "quick" || t == "thorough" {
		*tier = t
	}
	t0 := time.Now()
	hdir := filepath.Join(*vdir, "harness")
	w, err := LoadWorld(*repo, hdir, "verif")
	if err != nil {
		fmt.Fprintln(os.Stderr, "INCONCLUSIVE: cannot load", *repo, ":", err)
		return 2
	}
	loadS := time.Since(t0).Seconds()
	w.crossAll = *tier == "thorough"
	hs := w.Harnesses(*prop)
	if *only != "" {
		var f []*Harness
		for _, h := range hs {
			if strings.Contains(h.Name, *only) {
				f = append(f, h)
			}
		}
		hs = f
	}
	if len(hs) == 0 {
		fmt.Fprintln(os.Stderr, "INCONCLUSIVE: no harness for", *prop)
		return 2
	}
	// Deadlines are a safety net, not a target: a check that reaches one is INCONCLUSIVE (exit 2).
	// The registered bounds finish in well under a third of them on the 16-core sandbox (quick:
	// C17 ≈ 200 s, all others ≤ 90 s), so a slower or busier machine does not turn a clean run
	// into an inconclusive one.
	budget := 15 * time.Minute
	maxPaths := 60000
	if *tier == "thorough" {
		budget = 100 * time.Minute
		maxPaths = 3000000
	}
	// The thorough tier widens the harness bounds (vr.Thorough()) only for the properties whose
	// widened run was seen to finish on the unchanged tree. For the others it explores the quick
	// tier's bounds, adds the cross-solver check of every verdict query (crossAll) and says so in
	// the evidence (bounds.thorough_widening = false): their widened bounds ran past the deadline
	// (DESIGN.md §9.2), and a run that does not finish decides nothing.
	widen := *tier == "thorough" && !noThoroughWidening[*prop]
	htier := "quick"
	if widen {
		htier = "thorough"
	}
	cfg := &RunCfg{MaxInstrs: 80_000_000, MaxPaths: maxPaths, Deadline: time.Now().Add(budget), Workers: *workers, SolverMs: 60000, Tier: htier, Seed: seed}
	results := w.ExploreAll(hs, cfg)

	known, err := loadKnown(filepath.Join(*vdir, "known_findings.json"))
	if err != nil {
		fmt.Fprintln(os.Stderr, "INCONCLUSIVE: cannot read known_findings.json:", err)
		return 2
	}
	knownByKey := map[string]*KnownFinding{}
	for i := range known {
		if known[i].Status == "known" {
			knownByKey[known[i].Key] = &known[i]
		}
	}

	// ---- aggregate ----
	var inconcl []string
	var allFindings []*Finding
	var states, transitions, queries, nsat, nunsat, nunk int64
	var solverS float64
	funcs := map[string]bool{}
	stubs := map[string]bool{}
	reach := map[string]int{}
	var samples []PathSample
	bounds := map[string]interface{}{}
	vacuous := []string{}
	atomicEvents, sharedWrites := 0, 0
	for _, hr := range results {
		states += int64(hr.Paths + hr.Forks)
		transitions += hr.Instrs
		queries += int64(hr.Queries)
		nsat += int64(hr.NSat)
		nunsat += int64(hr.NUnsat)
		nunk += int64(hr.NUnk)
		solverS += hr.SolverTime.Seconds()
		atomicEvents += hr.AtomicEvents
		sharedWrites += hr.SharedWrites
		for k := range hr.Funcs {
			funcs[k] = true
		}
		for k := range hr.Stubs {
			stubs[k] = true
		}
		for k, v := range hr.Reach {
			reach[hr.Harness.Name+":"+k] += v
		}
		for k, v := range hr.Inconcl {
			inconcl = append(inconcl, fmt.Sprintf("%s: %s (x%d)", hr.Harness.Name, k, v))
		}
		for _, u := range hr.Unsupported {
			inconcl = append(inconcl, fmt.Sprintf("%s: unsupported: %s", hr.Harness.Name, u))
		}
		for k, v := range hr.Ends {
			if k == "engine-panic" || k == "unsupported" {
				inconcl = append(inconcl, fmt.Sprintf("%s: %d paths ended with %s", hr.Harness.Name, v, k))
			}
		}
		// vacuity: a harness none of whose paths reaches an assertion or returns normally
		if hr.NormalEnds == 0 && len(hr.Reach) == 0 && len(hr.Findings) == 0 {
			vacuous = append(vacuous, hr.Harness.Name)
		}
		samples = append(samples, hr.Samples...)
		bounds[hr.Harness.Name] = map[string]interface{}{"paths": hr.Paths, "ends": hr.Ends, "largest_concretisation": hr.MaxConc, "wall_s": hr.Wall.Seconds(), "reach_witnesses": len(hr.Reach)}
		keys := make([]string, 0, len(hr.Findings))
		for k := range hr.Findings {
			keys = append(keys, k)
		}
		sort.Strings(keys)
		for _, k := range keys {
			allFindings = append(allFindings, hr.Findings[k])
		}
	}
	for _, v := range vacuous {
		inconcl = append(inconcl, v+": vacuous (no path returns or reaches an assertion)")
	}

	// ---- native replay of findings + differential validation ----
	validated := 0
	mismatches := []string{}
	nativeS := 0.0
	harnessPkg := map[string]string{}
	for _, h := range hs {
		harnessPkg[h.Name] = h.Pkg
	}
	cexDir := filepath.Join(*vdir, "cex", *prop)
	if !*noNative {
		nat, err := NewNative(w, hdir)
		if err != nil {
			fmt.Fprintln(os.Stderr, "INCONCLUSIVE:", err)
			return 2
		}
		defer nat.Close()
		tn := time.Now()
		// 1. findings
		byPkg := map[string][]int{}
		assertLabels := map[string]bool{}
		for _, f := range allFindings {
			if f.Kind == "assert" {
				assertLabels[f.Harness+"|"+f.Label] = true
			}
		}
		for i, f := range allFindings {
			exp := expectedOutcome(f)
			if exp == "monitor" {
				f.Replayed = "engine-monitor finding (no native observable)"
				continue
			}
			byPkg[harnessPkg[f.Harness]] = append(byPkg[harnessPkg[f.Harness]], i)
		}
		for pkg, idxs := range byPkg {
			var fast, slow []int
			for _, i := range idxs {
				if allFindings[i].Kind == "loop" || allFindings[i].Kind == "alloc" || allFindings[i].Kind == "work" {
					slow = append(slow, i)
				} else {
					fast = append(fast, i)
				}
			}
			mk := func(i int) replayCase {
				f := allFindings[i]
				vals := map[string]string{}
				for k, v := range f.Model {
					vals[k] = v
				}
				if widen {
					vals["__tier"] = "1"
				}
				return replayCase{Harness: f.Harness, Values: vals, Expect: expectedOutcome(f), Key: f.Key()}
			}
			if len(fast) > 0 {
				var cases []replayCase
				for _, i := range fast {
					cases = append(cases, mk(i))
				}
				res, notes, err := nat.RunEach(pkg, cases, 20*time.Second)
				if err != nil {
					fmt.Fprintln(os.Stderr, "INCONCLUSIVE:", err)
					return 2
				}
				for j, i := range fast {
					f := allFindings[i]
					got := "no-result: " + notes[j]
					if res[j] != nil {
						got = res[j].Outcome
					}
					if got == cases[j].Expect {
						f.Replayed = "confirmed"
						validated++
					} else if f.Kind == "fatal" && (strings.HasPrefix(got, "no-result: exit status") || got == "process-exit") {
						f.Replayed = "confirmed (the native process exits: " + got + ")"
						validated++
					} else if strings.HasPrefix(got, "assert-fail:") && assertLabels[f.Harness+"|"+strings.TrimPrefix(got, "assert-fail:")] {
						// natively the run stops at the first failing assertion; the engine goes on and
						// reports later ones on the same path too. The earlier one is itself a reported finding.
						f.Replayed = "confirmed (native run stops at the earlier failing assertion " + strings.TrimPrefix(got, "assert-fail:") + ")"
						validated++
					} else {
						f.Replayed = "NOT confirmed: native outcome " + got
						mismatches = append(mismatches, fmt.Sprintf("%s: engine reports %s but native replay gives %s", f.Key(), cases[j].Expect, got))
					}
				}
			}
			for _, i := range slow {
				f := allFindings[i]
				c := mk(i)
				res, status, err := nat.Run(pkg, []replayCase{c}, 10*time.Second)
				if err != nil {
					fmt.Fprintln(os.Stderr, "INCONCLUSIVE:", err)
					return 2
				}
				if res[0] == nil {
					f.Replayed = "confirmed (native run did not finish: " + strings.SplitN(status, "\n", 2)[0] + ")"
					validated++
				} else if f.Kind == "alloc" && res[0].Outcome == "panic" {
					f.Replayed = "confirmed (native run panics: " + res[0].Panic + ")"
					validated++
				} else if f.Kind == "alloc" && res[0].OverAlloc {
					f.Replayed = fmt.Sprintf("confirmed (native run allocated %d bytes, above the limit)", res[0].AllocBytes)
					validated++
				} else {
					f.Replayed = "NOT confirmed: native outcome " + res[0].Outcome
					if f.Kind == "loop" || f.Kind == "work" {
						// an unwinding artefact, not a violation: the bound must be raised
						inconcl = append(inconcl, fmt.Sprintf("%s: unwinding bound reached but native run finishes (raise LoopBound)", f.Key()))
					} else {
						mismatches = append(mismatches, fmt.Sprintf("%s: allocation finding not confirmed natively (%s)", f.Key(), res[0].Outcome))
					}
				}
			}
		}
		// 2. differential validation of sampled paths: engine concrete run vs native run
		type dv struct {
			c   replayCase
			exp string
			obs []string
		}
		dvs := map[string][]dv{}
		for hi, hr := range results {
			for _, c := range hr.Models {
				if widen {
					c.Values["__tier"] = "1"
				}
				m := stringsToModel(c.Values)
				r := w.runPath(nil, hs[hi], cfg, WorkItem{}, m)
				exp := r.end
				switch r.end {
				case "assert-fail":
					for _, o := range r.observes {
						if strings.HasPrefix(o, "assert-fail:") {
							exp = o
						}
					}
				case "loop-bound", "alloc-limit", "unsupported", "engine-panic", "instr-budget":
					continue
				}
				if strings.HasPrefix(exp, "blocked") {
					continue
				}
				if strings.HasPrefix(exp, "process-exit") {
					exp = "process-exit"
				}
				var obs []string
				for _, o := range r.observes {
					if strings.Contains(o, "=") && !strings.HasPrefix(o, "assert-fail:") {
						obs = append(obs, o)
					}
				}
				dvs[hs[hi].Pkg] = append(dvs[hs[hi].Pkg], dv{c: c, exp: exp, obs: obs})
			}
		}
		for pkg, list := range dvs {
			var cases []replayCase
			for _, d := range list {
				cases = append(cases, d.c)
			}
			res, notes, err := nat.RunEach(pkg, cases, 20*time.Second)
			if err != nil {
				fmt.Fprintln(os.Stderr, "INCONCLUSIVE:", err)
				return 2
			}
			for j, d := range list {
				got := "no-result: " + notes[j]
				var gobs []string
				if res[j] != nil {
					got = res[j].Outcome
					gobs = res[j].Observes
				}
				if got != d.exp {
					mismatches = append(mismatches, fmt.Sprintf("differential: %s: engine outcome %q, native %q (values %v)", d.c.Harness, d.exp, got, compactVals(d.c.Values)))
					continue
				}
				if strings.Join(gobs, ";") != strings.Join(d.obs, ";") {
					mismatches = append(mismatches, fmt.Sprintf("differential: %s: observations differ: engine %v native %v (values %v)", d.c.Harness, d.obs, gobs, compactVals(d.c.Values)))
					continue
				}
				validated++
			}
		}
		nativeS = time.Since(tn).Seconds()
	}

	// ---- cross-solver diff of verdict queries ----
	crossChecked, crossDisagree := 0, 0
	{
		w.verdictMu.Lock()
		vs := w.verdicts
		w.verdictMu.Unlock()
		limit := 40
		if *tier == "thorough" {
			limit = 400
		}
		if len(vs) > limit {
			vs = vs[:limit]
		}
		var wg sync.WaitGroup
		sem := make(chan struct{}, *workers)
		var cmu sync.Mutex
		for _, v := range vs {
			for _, kind := range []SolverKind{SolverZ3New, SolverCVC5} {
				wg.Add(1)
				sem <- struct{}{}
				go func(v verdictRec, kind SolverKind) {
					defer wg.Done()
					defer func() { <-sem }()
					r := OneShot(kind, v.script, 60000)
					cmu.Lock()
					crossChecked++
					if r != v.res {
						crossDisagree++
						inconcl = append(inconcl, fmt.Sprintf("cross-solver: %s says %s, z3 said %s (%s)", kind, r, v.res, v.what))
					}
					cmu.Unlock()
				}(v, kind)
			}
		}
		wg.Wait()
	}

	// ---- verdict ----
	violations := 0
	var lines []string
	knownHit := []string{}
	for _, f := range allFindings {
		k := f.Key()
		if strings.HasPrefix(f.Replayed, "NOT confirmed") {
			continue
		}
		if kf, ok := knownByKey[k]; ok {
			f.Known = true
			knownHit = append(knownHit, k)
			lines = append(lines, fmt.Sprintf("KNOWN-FINDING: property=%s %s", *prop, kf.What))
			continue
		}
		violations++
		c := replayCase{Harness: f.Harness, Values: f.Model, Expect: expectedOutcome(f), Key: k}
		os.MkdirAll(cexDir, 0o755)
		path := filepath.Join(cexDir, caseID(c)+".json")
		fd := map[string]interface{}{"harness": c.Harness, "values": c.Values, "expect": c.Expect, "key": c.Key, "finding": f}
		os.WriteFile(path, []byte(mustJSON(fd)), 0o644)
		lines = append(lines, fmt.Sprintf("VIOLATION property=%s replay=%s", *prop, path))
		fmt.Fprintf(os.Stderr, "violation: %s\n   %s %s @ %s [%s]\n", k, f.Msg, f.Fault, f.Pos, f.Replayed)
		if *triage {
			e := KnownFinding{Status: "known", Property: *prop, Key: k, What: fmt.Sprintf("%s %s %s %s", f.Func, f.Fault, f.Label, f.Msg)}
			b, _ := json.Marshal(e)
			fmt.Fprintf(os.Stderr, "TRIAGE %s\n", b)
		}
	}
	sort.Strings(lines)
	seenLine := map[string]bool{}
	for _, l := range lines {
		if !seenLine[l] {
			seenLine[l] = true
			fmt.Println(l)
		}
	}
	for _, m := range mismatches {
		fmt.Println("ENGINE-MISMATCH:", m)
	}
	for _, s := range inconcl {
		fmt.Println("INCONCLUSIVE:", s)
	}

	// ---- evidence ----
	var flist []map[string]interface{}
	for _, f := range allFindings {
		flist = append(flist, map[string]interface{}{"key": f.Key(), "count": f.Count, "known": f.Known, "replay": f.Replayed, "pos": f.Pos, "msg": f.Msg})
	}
	var sampleList []interface{}
	for _, s := range samples {
		sampleList = append(sampleList, s)
		if len(sampleList) >= 12 {
			break
		}
	}
	if len(sampleList) == 0 {
		sampleList = append(sampleList, "no path explored")
	}
	hnames := []string{}
	for _, h := range hs {
		hnames = append(hnames, h.Name)
	}
	ev := map[string]interface{}{
		"property_id": *prop,
		"tier":        *tier,
		"seed":        seed,
		"level":       "model_checking",
		"coverage": map[string]interface{}{
			"states":                        states,
			"transitions":                   transitions,
			"traces_validated_against_impl": validated,
			"samples":                       sampleList,
			"explanation":                   "bounded symbolic execution of the real go/ssa of /repo (regenerated on this run); states = symbolic path states (paths + forks), transitions = SSA instructions executed symbolically; every verdict is an SMT query over all values of the symbolic inputs within the bounds of each harness",
			"harnesses":                     hnames,
			"functions_encoded":             sortedKeys(funcs),
			"bounds":                        bounds,
			"stubs_used":                    sortedKeys(stubs),
			"queries":                       map[string]int64{"total": queries, "sat": nsat, "unsat": nunsat, "unknown": nunk},
			"solver_s":                      solverS,
			"cross_checked":                 crossChecked,
			"cross_disagreements":           crossDisagree,
			"reach_witnesses":               reach,
			"findings":                      flist,
			"known_findings_hit":            knownHit,
			"inconclusive":                  inconcl,
			"engine_mismatches":             mismatches,
			"load_s":                        loadS,
			"native_s":                      nativeS,
			"atomic_events":                 atomicEvents,
			"shared_writes":                 sharedWrites,
			"concretisation_cap":            w.concCap,
			"harness_bounds":                htier, // "thorough": widened (vr.Thorough()); "quick": the quick tier's bounds
		},
		"assumptions": []string{
			"go/ssa lowering of the source, the gc compiler, the Go runtime and the SMT solvers (z3 4.8.12 deciding; z3 5.1.0 and cvc5 cross-check a sample) are trusted",
			"environment stubs listed under coverage.stubs_used model their APIs by contract",
			"nothing is claimed outside the per-harness bounds (buffer sizes, list lengths, unwinding) stated in DESIGN.md §4 and in each harness",
		},
		"wall_s":     time.Since(t0).Seconds(),
		"violations": violations,
	}
	os.MkdirAll(filepath.Join(*vdir, "evidence"), 0o755)
	os.WriteFile(filepath.Join(*vdir, "evidence", *prop+".json"), []byte(mustJSON(ev)), 0o644)

	fmt.Fprintf(os.Stderr, "%s %s: harnesses=%d states=%d transitions=%d queries=%d (sat %d unsat %d unk %d) solver=%.1fs native=%.1fs validated=%d findings=%d known=%d violations=%d wall=%.1fs\n",
		*prop, *tier, len(hs), states, transitions, queries, nsat, nunsat, nunk, solverS, nativeS, validated, len(allFindings), len(knownHit), violations, time.Since(t0).Seconds())
	if violations > 0 {
		return 1
	}
	if len(mismatches) > 0 || len(inconcl) > 0 {
		return 2
	}
	return 0
}

func compactVals(m map[string]string) string {
	keys := make([]string, 0, len(m))
	for k, v := range m {
		if v != "0" {
			keys = append(keys, k+"="+v)
		}
	}
	sort.Strings(keys)
	if len(keys) > 40 {
		keys = keys[:40]
	}
	return strings.Join(keys, " ")
}

// cmdReplay replays a counterexample file natively against the current /repo.
// Exit 1 if the violation reproduces, 0 if it does not, 2 on error.
func cmdReplay(args []string) int {
	fs := flag.NewFlagSet("replay", flag.ExitOnError)
	repo := fs.String("repo", "/repo", "repository")
	vdir := fs.String("verif", "/verif", "verif directory")
	fs.Parse(args)
	if fs.NArg() < 1 {
		fmt.Fprintln(os.Stderr, "replay: file required")
		return 2
	}
	data, err := os.ReadFile(fs.Arg(0))
	if err != nil {
		fmt.Fprintln(os.Stderr, err)
		return 2
	}
	var c replayCase
	if err := json.Unmarshal(data, &c); err != nil {
		fmt.Fprintln(os.Stderr, err)
		return 2
	}
	hdir := filepath.Join(*vdir, "harness")
	w, err := LoadWorld(*repo, hdir, "verif")
	if err != nil {
		fmt.Fprintln(os.Stderr, err)
		return 2
	}
	var pkg string
	for _, h := range w.Harnesses("") {
		if h.Name == c.Harness {
			pkg = h.Pkg
		}
	}
	if pkg == "" {
		fmt.Fprintln(os.Stderr, "no such harness", c.Harness)
		return 2
	}
	nat, err := NewNative(w, hdir)
	if err != nil {
		fmt.Fprintln(os.Stderr, err)
		return 2
	}
	defer nat.Close()
	res, status, err := nat.Run(pkg, []replayCase{c}, 20*time.Second)
	if err != nil {
		fmt.Fprintln(os.Stderr, err)
		return 2
	}
	got := "no-result"
	if res[0] != nil {
		got = res[0].Outcome
		fmt.Printf("native outcome: %s %s\nobservations: %v\n", res[0].Outcome, res[0].Panic, res[0].Observes)
	} else {
		fmt.Printf("native run produced no result: %s\n", status)
	}
	fmt.Printf("expected for the violation: %s\n", c.Expect)
	if c.Expect == "process-exit" && res[0] == nil && strings.Contains(status, "exit status") {
		got = "process-exit" // the library ended the native process (log.Fatal)
	}
	if got == c.Expect || (c.Expect == "alloc" && (got == "panic" || (res[0] != nil && res[0].OverAlloc))) {
		fmt.Println("REPRODUCED")
		return 1
	}
	fmt.Println("not reproduced")
	return 0
}

// cmdSelftest runs the engine's semantics micro-suite (harnesses VerifST_*): every assertion
// must be proved, and the sampled paths must behave identically natively and in the engine.
func cmdSelftest(args []string) int {
	tmp, err := os.MkdirTemp("", "symgo-selftest-")
	if err != nil {
		fmt.Fprintln(os.Stderr, err)
		return 2
	}
	defer os.RemoveAll(tmp)
	vdir := "/verif"
	if exe, err := os.Executable(); err == nil {
		vdir = filepath.Dir(filepath.Dir(exe))
	}
	// evidence and counterexamples of the self-test go to a scratch directory
	os.Symlink(filepath.Join(vdir, "known_findings.json"), filepath.Join(tmp, "known_findings.json"))
	if err := copyTree(filepath.Join(vdir, "harness"), filepath.Join(tmp, "harness")); err != nil {
		fmt.Fprintln(os.Stderr, "selftest:", err)
		return 2
	}
	rc := cmdCheck(append([]string{"-prop", "ST", "-tier", "quick", "-verif", tmp}, args...))
	if rc != 0 {
		fmt.Fprintln(os.Stderr, "selftest FAILED: the engine disagrees with the native semantics of Go")
		return 2
	}
	fmt.Fprintln(os.Stderr, "selftest ok")
	return 0
}

func copyTree(src, dst string) error {
	return filepath.Walk(src, func(p string, info os.FileInfo, err error) error {
		if err != nil {
			return err
		}
		rel, _ := filepath.Rel(src, p)
		if info.IsDir() {
			return os.MkdirAll(filepath.Join(dst, rel), 0o755)
		}
		b, err := os.ReadFile(p)
		if err != nil {
			return err
		}
		return os.WriteFile(filepath.Join(dst, rel), b, 0o644)
	})
}
