package main

import (
	"fmt"
	"go/types"

	"golang.org/x/tools/go/ssa"
)

// Value is one of:
//
//	*Term      integer / bool scalar
//	StrV       concrete string
//	*Ptr       pointer (nil pointer: base == nil)
//	*StructV   struct (immutable in registers, mutable cell in memory)
//	*ArrayV    array  (same)
//	*SliceV    slice header (nil slice: arr == nil)
//	*IfaceV    interface value (nil interface: t == nil)
//	*MapV      map reference (nil map: m == nil)
//	*FuncV     function / closure (nil func: fn == nil && intr == "")
//	*ChanV     channel reference (nil chan: c == nil)
//	TupleV     multi-value
//	*OpaqueV   engine-private payloads (reflect.Value, big magnitude, ...)
type Value interface{}

type StrV string

// Container is a memory cell holder addressed by (container, index).
type Container interface {
	get(i int) Value
	set(i int, v Value)
	owner() *Obj
}

type Obj struct {
	id     int
	slot   Value
	typ    types.Type
	shared bool   // reachable from a package-level variable after init
	global string // name if this is a package-level variable cell
	site   string // allocation site (debug)
	xfer   bool   // ownership transferred over a channel
}

func (o *Obj) get(i int) Value    { return o.slot }
func (o *Obj) set(i int, v Value) { o.slot = v }
func (o *Obj) owner() *Obj        { return o }

type StructV struct {
	f   []Value
	own *Obj
}

func (s *StructV) get(i int) Value    { return s.f[i] }
func (s *StructV) set(i int, v Value) { s.f[i] = v }
func (s *StructV) owner() *Obj        { return s.own }

type ArrayV struct {
	e   []Value
	own *Obj
}

func (a *ArrayV) get(i int) Value    { return a.e[i] }
func (a *ArrayV) set(i int, v Value) { a.e[i] = v }
func (a *ArrayV) owner() *Obj        { return a.own }

type Ptr struct {
	base Container
	idx  int
}

var nilPtr = &Ptr{}

func (p *Ptr) IsNil() bool { return p == nil || p.base == nil }

type SliceV struct {
	arr           *ArrayV
	off, len, cap int
}

var nilSlice = &SliceV{}

type IfaceV struct {
	t types.Type
	v Value
}

var nilIface = &IfaceV{}

type mapEntry struct {
	k, v Value
}

type MapData struct {
	entries []mapEntry
	own     *Obj
}

type MapV struct {
	m *MapData
}

type FuncV struct {
	fn   *ssa.Function
	bind []Value
}

type ChanData struct {
	buf    []Value
	cap    int
	closed bool
	own    *Obj
}

type ChanV struct {
	c *ChanData
}

type TupleV []Value

type OpaqueV struct {
	kind string
	x    interface{}
}

// ---- type helpers ----

func intWidth(t types.Type) (w uint16, signed bool, ok bool) {
	b, isB := t.Underlying().(*types.Basic)
	if !isB {
		return 0, false, false
	}
	switch b.Kind() {
	case types.Bool, types.UntypedBool:
		return 0, false, true
	case types.Int8:
		return 8, true, true
	case types.Int16:
		return 16, true, true
	case types.Int32, types.UntypedRune:
		return 32, true, true
	case types.Int64, types.Int, types.UntypedInt:
		return 64, true, true
	case types.Uint8:
		return 8, false, true
	case types.Uint16:
		return 16, false, true
	case types.Uint32:
		return 32, false, true
	case types.Uint64, types.Uint, types.Uintptr:
		return 64, false, true
	}
	return 0, false, false
}

func isString(t types.Type) bool {
	b, ok := t.Underlying().(*types.Basic)
	return ok && b.Info()&types.IsString != 0
}

func isFloat(t types.Type) bool {
	b, ok := t.Underlying().(*types.Basic)
	return ok && b.Info()&(types.IsFloat|types.IsComplex) != 0
}

// zero builds the zero value of a type. own tags memory cells with their object.
func (ex *Exec) zero(t types.Type, own *Obj) Value {
	switch u := t.Underlying().(type) {
	case *types.Basic:
		if w, _, ok := intWidth(t); ok {
			return ex.ts.Const(w, 0)
		}
		if isString(t) {
			return StrV("")
		}
		if u.Kind() == types.UnsafePointer {
			return nilPtr
		}
		if isFloat(t) {
			return &OpaqueV{kind: "float", x: 0.0}
		}
		if u.Kind() == types.UntypedNil {
			return nil
		}
		panic(ex.unsupported("zero of basic type " + t.String()))
	case *types.Pointer:
		return nilPtr
	case *types.Struct:
		s := &StructV{f: make([]Value, u.NumFields()), own: own}
		for i := range s.f {
			s.f[i] = ex.zero(u.Field(i).Type(), own)
		}
		return s
	case *types.Array:
		n := int(u.Len())
		a := &ArrayV{e: make([]Value, n), own: own}
		if w, _, ok := intWidth(u.Elem()); ok {
			z := ex.ts.Const(w, 0)
			for i := range a.e {
				a.e[i] = z
			}
		} else {
			for i := range a.e {
				a.e[i] = ex.zero(u.Elem(), own)
			}
		}
		return a
	case *types.Slice:
		return nilSlice
	case *types.Interface:
		return nilIface
	case *types.Map:
		return &MapV{}
	case *types.Signature:
		return &FuncV{}
	case *types.Chan:
		return &ChanV{}
	case *types.Tuple:
		tv := make(TupleV, u.Len())
		for i := range tv {
			tv[i] = ex.zero(u.At(i).Type(), own)
		}
		return tv
	}
	panic(ex.unsupported("zero of type " + t.String()))
}

// copyVal returns a deep copy of aggregate values (value semantics); own tags the new cells.
func copyVal(v Value, own *Obj) Value {
	switch x := v.(type) {
	case *StructV:
		n := &StructV{f: make([]Value, len(x.f)), own: own}
		for i, f := range x.f {
			n.f[i] = copyVal(f, own)
		}
		return n
	case *ArrayV:
		n := &ArrayV{e: make([]Value, len(x.e)), own: own}
		for i, f := range x.e {
			n.e[i] = copyVal(f, own)
		}
		return n
	case TupleV:
		n := make(TupleV, len(x))
		for i, f := range x {
			n[i] = copyVal(f, nil)
		}
		return n
	}
	return v
}

// assignInto stores v into the cell (c,i), copying aggregates element-wise into existing cells
// so that pointers into them stay valid.
func assignInto(c Container, i int, v Value) {
	switch x := v.(type) {
	case *StructV:
		if dst, ok := c.get(i).(*StructV); ok && len(dst.f) == len(x.f) {
			for j := range x.f {
				assignInto(dst, j, x.f[j])
			}
			return
		}
		c.set(i, copyVal(v, c.owner()))
	case *ArrayV:
		if dst, ok := c.get(i).(*ArrayV); ok && len(dst.e) == len(x.e) {
			if dst == x {
				return
			}
			for j := range x.e {
				assignInto(dst, j, x.e[j])
			}
			return
		}
		c.set(i, copyVal(v, c.owner()))
	default:
		c.set(i, v)
	}
}

func (ex *Exec) newObj(t types.Type, site string) *Obj {
	ex.objSeq++
	o := &Obj{id: ex.objSeq, typ: t, site: site}
	return o
}

func (ex *Exec) alloc(t types.Type, site string) *Ptr {
	o := ex.newObj(t, site)
	o.slot = ex.zero(t, o)
	return &Ptr{base: o, idx: 0}
}

func (ex *Exec) newArray(elem types.Type, n int, site string) *ArrayV {
	o := ex.newObj(types.NewArray(elem, int64(n)), site)
	a := &ArrayV{e: make([]Value, n), own: o}
	if n > 0 {
		z := ex.zero(elem, o)
		a.e[0] = z
		switch z.(type) {
		case *StructV, *ArrayV:
			for i := 1; i < n; i++ {
				a.e[i] = ex.zero(elem, o)
			}
		default:
			for i := 1; i < n; i++ {
				a.e[i] = z
			}
		}
	}
	o.slot = a
	return a
}

func describe(v Value) string {
	switch x := v.(type) {
	case nil:
		return "<nil>"
	case *Term:
		return x.String()
	case StrV:
		return fmt.Sprintf("%q", string(x))
	case *Ptr:
		if x.IsNil() {
			return "nilptr"
		}
		return fmt.Sprintf("&obj%d[%d]", ownerID(x.base), x.idx)
	case *SliceV:
		if x.arr == nil {
			return "nilslice"
		}
		return fmt.Sprintf("slice(obj%d,%d,%d,%d)", ownerID(x.arr), x.off, x.len, x.cap)
	case *IfaceV:
		if x.t == nil {
			return "niliface"
		}
		return "iface(" + x.t.String() + ")"
	case *StructV:
		return fmt.Sprintf("struct{%d}", len(x.f))
	case *ArrayV:
		return fmt.Sprintf("array[%d]", len(x.e))
	}
	return fmt.Sprintf("%T", v)
}

func ownerID(c Container) int {
	if c == nil || c.owner() == nil {
		return 0
	}
	return c.owner().id
}
