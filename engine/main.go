package main

import (
	"flag"
	"fmt"
	"os"
	"runtime"
	"sort"
	"strings"
	"time"
)

func main() {
	if len(os.Args) < 2 {
		fmt.Fprintln(os.Stderr, "usage: symgo <run|check|replay|selftest|kinds> ...")
		os.Exit(2)
	}
	switch os.Args[1] {
	case "run":
		cmdRun(os.Args[2:])
	case "check":
		os.Exit(cmdCheck(os.Args[2:]))
	case "replay":
		os.Exit(cmdReplay(os.Args[2:]))
	case "selftest":
		os.Exit(cmdSelftest(os.Args[2:]))
	default:
		fmt.Fprintln(os.Stderr, "unknown command", os.Args[1])
		os.Exit(2)
	}
}

// cmdRun: developer command — explore harnesses and print a summary.
func cmdRun(args []string) {
	fs := flag.NewFlagSet("run", flag.ExitOnError)
	repo := fs.String("repo", "/repo", "repository")
	hdir := fs.String("harness", "/verif/harness", "harness directory")
	prop := fs.String("prop", "", "property id")
	only := fs.String("only", "", "substring filter on harness names")
	workers := fs.Int("j", runtime.NumCPU(), "workers")
	maxPaths := fs.Int("paths", 200000, "path budget")
	secs := fs.Int("secs", 600, "time budget per harness")
	verbose := fs.Bool("v", false, "print findings in full")
	fs.Parse(args)
	t0 := time.Now()
	w, err := LoadWorld(*repo, *hdir, "verif")
	if err != nil {
		fmt.Fprintln(os.Stderr, "load:", err)
		os.Exit(2)
	}
	fmt.Printf("loaded in %.1fs\n", time.Since(t0).Seconds())
	hs := w.Harnesses(*prop)
	for _, h := range hs {
		if *only != "" && !strings.Contains(h.Name, *only) {
			continue
		}
		cfg := &RunCfg{MaxInstrs: 50_000_000, MaxPaths: *maxPaths, Deadline: time.Now().Add(time.Duration(*secs) * time.Second), Workers: *workers, SolverMs: 60000}
		hr := w.Explore(h, cfg)
		printSummary(hr, *verbose)
	}
}

func printSummary(hr *HarnessResult, verbose bool) {
	fmt.Printf("== %s: paths=%d instrs=%d queries=%d (sat %d unsat %d unk %d) solver=%.2fs wall=%.2fs maxconc=%d\n", hr.Harness.Name, hr.Paths, hr.Instrs, hr.Queries, hr.NSat, hr.NUnsat, hr.NUnk, hr.SolverTime.Seconds(), hr.Wall.Seconds(), hr.MaxConc)
	var ends []string
	for k, v := range hr.Ends {
		ends = append(ends, fmt.Sprintf("%s:%d", k, v))
	}
	sort.Strings(ends)
	fmt.Printf("   ends: %s\n", strings.Join(ends, " "))
	var rs []string
	for k, v := range hr.Reach {
		rs = append(rs, fmt.Sprintf("%s:%d", k, v))
	}
	sort.Strings(rs)
	fmt.Printf("   reach: %s\n", strings.Join(rs, " | "))
	for k, v := range hr.Inconcl {
		fmt.Printf("   INCONCLUSIVE: %s (x%d)\n", k, v)
	}
	for _, u := range hr.Unsupported {
		fmt.Printf("   UNSUPPORTED: %s\n", u)
	}
	var keys []string
	for k := range hr.Findings {
		keys = append(keys, k)
	}
	sort.Strings(keys)
	for _, k := range keys {
		f := hr.Findings[k]
		fmt.Printf("   FINDING x%d: %s\n", f.Count, k)
		if verbose {
			fmt.Printf("      msg=%s pos=%s\n      model=%v\n      stack=%s\n", f.Msg, f.Pos, f.Model, strings.Join(f.Stack, " <- "))
		}
	}
}
