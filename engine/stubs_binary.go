package main

// encoding/binary.Read / Write by contract: fixed-size big-endian (de)serialisation driven by the
// dynamic type of the data argument. The reader/writer side is the real (interpreted) method.

import (
	"fmt"
	"go/types"

	"golang.org/x/tools/go/ssa"
)

// fixedSize returns the encoded size of a value of type t holding v, or -1.
func (ex *Exec) fixedSize(t types.Type, v Value) int {
	switch u := t.Underlying().(type) {
	case *types.Basic:
		if w, _, ok := intWidth(t); ok {
			if w == 0 {
				return 1
			}
			if u.Kind() == types.Int || u.Kind() == types.Uint || u.Kind() == types.Uintptr {
				return -1
			}
			return int(w / 8)
		}
		return -1
	case *types.Array:
		a := v.(*ArrayV)
		n := 0
		for _, e := range a.e {
			s := ex.fixedSize(u.Elem(), e)
			if s < 0 {
				return -1
			}
			n += s
		}
		return n
	case *types.Slice:
		s := v.(*SliceV)
		n := 0
		for i := 0; i < s.len; i++ {
			sz := ex.fixedSize(u.Elem(), s.arr.e[s.off+i])
			if sz < 0 {
				return -1
			}
			n += sz
		}
		return n
	case *types.Struct:
		sv := v.(*StructV)
		n := 0
		for i := 0; i < u.NumFields(); i++ {
			sz := ex.fixedSize(u.Field(i).Type(), sv.f[i])
			if sz < 0 {
				return -1
			}
			n += sz
		}
		return n
	}
	return -1
}

func (ex *Exec) encodeBE(t types.Type, v Value, out *[]Value) {
	ts := ex.ts
	switch u := t.Underlying().(type) {
	case *types.Basic:
		x := v.(*Term)
		if x.w == 0 {
			*out = append(*out, ts.Ite(x, ts.Const(8, 1), ts.Const(8, 0)))
			return
		}
		for i := int(x.w) - 8; i >= 0; i -= 8 {
			*out = append(*out, ts.Extract(x, uint16(i+7), uint16(i)))
		}
	case *types.Array:
		for _, e := range v.(*ArrayV).e {
			ex.encodeBE(u.Elem(), e, out)
		}
	case *types.Slice:
		s := v.(*SliceV)
		for i := 0; i < s.len; i++ {
			ex.encodeBE(u.Elem(), s.arr.e[s.off+i], out)
		}
	case *types.Struct:
		sv := v.(*StructV)
		for i := 0; i < u.NumFields(); i++ {
			ex.encodeBE(u.Field(i).Type(), sv.f[i], out)
		}
	}
}

// decodeBE writes decoded values into the cell (c,i) of type t, consuming from in.
func (ex *Exec) decodeBE(t types.Type, c Container, i int, in *[]Value) {
	ts := ex.ts
	switch u := t.Underlying().(type) {
	case *types.Basic:
		w, _, _ := intWidth(t)
		if w == 0 {
			b := (*in)[0].(*Term)
			*in = (*in)[1:]
			c.set(i, ts.Not(ts.Cmp(OpEq, b, ts.Const(8, 0))))
			return
		}
		n := int(w / 8)
		var acc *Term
		for k := 0; k < n; k++ {
			b := (*in)[k].(*Term)
			if acc == nil {
				acc = b
			} else {
				acc = ts.Concat(acc, b)
			}
		}
		*in = (*in)[n:]
		c.set(i, acc)
	case *types.Array:
		a := c.get(i).(*ArrayV)
		for k := range a.e {
			ex.decodeBE(u.Elem(), a, k, in)
		}
	case *types.Slice:
		s := c.get(i).(*SliceV)
		for k := 0; k < s.len; k++ {
			ex.decodeBE(u.Elem(), s.arr, s.off+k, in)
		}
	case *types.Struct:
		sv := c.get(i).(*StructV)
		for k := 0; k < u.NumFields(); k++ {
			ex.decodeBE(u.Field(k).Type(), sv, k, in)
		}
	}
}

func (ex *Exec) invokeMethod(recv *IfaceV, name string, args ...Value) (Value, *Panic) {
	if recv.t == nil {
		return nil, ex.runtimePanic("nil", "invalid memory address or nil pointer dereference (method call on nil interface)")
	}
	ms := ex.W.prog.MethodSets.MethodSet(recv.t)
	for i := 0; i < ms.Len(); i++ {
		sel := ms.At(i)
		if sel.Obj().Name() == name {
			fn := ex.W.prog.MethodValue(sel)
			return ex.call(fn, append([]Value{recv.v}, args...), nil, nil)
		}
	}
	panic(ex.unsupported("method " + name + " not found on " + recv.t.String()))
}

func stubBinaryWrite(ex *Exec, fn *ssa.Function, args []Value) (Value, *Panic) {
	ex.stubsUsed["encoding/binary.Write = fixed-size big-endian serialisation by dynamic type, then the real w.Write"] = true
	w := args[0].(*IfaceV)
	data := args[2].(*IfaceV)
	if data.t == nil {
		return ex.makeError("binary.Write: some values are not fixed-sized in type <nil>"), nil
	}
	t := data.t
	v := data.v
	if pt, ok := t.Underlying().(*types.Pointer); ok {
		p := v.(*Ptr)
		if p.IsNil() {
			return nil, ex.runtimePanic("nil", "binary.Write of nil pointer")
		}
		t = pt.Elem()
		v = p.base.get(p.idx)
	}
	if ex.fixedSize(t, v) < 0 {
		return ex.makeError("binary.Write: some values are not fixed-sized in type " + t.String()), nil
	}
	var out []Value
	ex.encodeBE(t, v, &out)
	arr := ex.newArray(types.Typ[types.Byte], len(out), "binary.Write buffer")
	copy(arr.e, out)
	sl := &SliceV{arr: arr, off: 0, len: len(out), cap: len(out)}
	res, pan := ex.invokeMethod(w, "Write", sl)
	if pan != nil {
		return nil, pan
	}
	return res.(TupleV)[1], nil
}

func stubBinaryRead(ex *Exec, fn *ssa.Function, args []Value) (Value, *Panic) {
	ex.stubsUsed["encoding/binary.Read = real io.ReadFull(r, size) then fixed-size big-endian decode by dynamic type"] = true
	r := args[0].(*IfaceV)
	data := args[2].(*IfaceV)
	if data.t == nil {
		return ex.makeError("binary.Read: invalid type <nil>"), nil
	}
	var c Container
	var idx int
	var t types.Type
	switch u := data.t.Underlying().(type) {
	case *types.Pointer:
		p := data.v.(*Ptr)
		if p.IsNil() {
			return nil, ex.runtimePanic("nil", "binary.Read into nil pointer")
		}
		c, idx, t = p.base, p.idx, u.Elem()
	case *types.Slice:
		o := ex.newObj(data.t, "binary.Read slice arg")
		o.slot = data.v
		c, idx, t = o, 0, data.t
	default:
		return ex.makeError("binary.Read: invalid type " + data.t.String()), nil
	}
	size := ex.fixedSize(t, c.get(idx))
	if size < 0 {
		return ex.makeError("binary.Read: invalid type " + data.t.String()), nil
	}
	arr := ex.newArray(types.Typ[types.Byte], size, "binary.Read buffer")
	sl := &SliceV{arr: arr, off: 0, len: size, cap: size}
	iop := ex.W.pkgs["io"]
	if iop == nil {
		panic(ex.unsupported("io package not loaded"))
	}
	res, pan := ex.call(iop.Func("ReadFull"), []Value{r, sl}, nil, nil)
	if pan != nil {
		return nil, pan
	}
	errv := res.(TupleV)[1].(*IfaceV)
	if errv.t != nil {
		return errv, nil
	}
	in := append([]Value{}, arr.e...)
	ex.noteWrite(c.owner())
	ex.decodeBE(t, c, idx, &in)
	if len(in) != 0 {
		panic(fmt.Sprintf("binary.Read model: %d bytes left over", len(in)))
	}
	return nilIface, nil
}
