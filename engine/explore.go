package main

// Path exploration: worklist of decision prefixes, parallel workers, result aggregation.

import (
	"fmt"
	"os"
	"runtime/debug"
	"sort"
	"strings"
	"sync"
	"time"

	"golang.org/x/tools/go/ssa"
)

type RunCfg struct {
	MaxInstrs int64
	Ownership bool
	MaxPaths  int
	Deadline  time.Time
	Workers   int
	Tier      string
	Seed      int64
	SolverMs  int
}

type PathSample struct {
	Harness   string            `json:"harness"`
	Decisions string            `json:"decisions"`
	PCSize    int               `json:"pc_conjuncts"`
	End       string            `json:"end"`
	Witness   map[string]string `json:"witness_input,omitempty"`
	Instrs    int64             `json:"ssa_instructions"`
}

type HarnessResult struct {
	Harness            *Harness
	Paths              int
	Ends               map[string]int
	Findings           map[string]*Finding
	Reach              map[string]int
	Inconcl            map[string]int
	Funcs              map[string]bool
	Stubs              map[string]bool
	Instrs             int64
	Forks              int
	Queries            int
	SolverTime         time.Duration
	NSat, NUnsat, NUnk int
	MaxConc            int
	Samples            []PathSample
	Models             []replayCase // sampled completed paths for differential validation
	Wall               time.Duration
	Unsupported        []string
	SharedWrites       int
	AtomicEvents       int
	NormalEnds         int
}

type replayCase struct {
	Harness  string            `json:"harness"`
	Values   map[string]string `json:"values"`
	Expect   string            `json:"expect,omitempty"`
	Key      string            `json:"key,omitempty"`
	Observes []string          `json:"observes,omitempty"`
}

type pathResult struct {
	children     []WorkItem
	findings     []*Finding
	reach        map[string]int
	inconcl      []string
	end          string
	instrs       int64
	forks        int
	model        Model
	choices      map[string]uint64
	funcs        map[*ssa.Function]bool
	stubs        map[string]bool
	trace        []Decision
	pcSize       int
	maxConc      int
	unsupported  string
	sharedWrites int
	atomicEvents int
	inputs       []string
	observes     []string
}

func decisionsString(ds []Decision) string {
	var sb strings.Builder
	for i, d := range ds {
		if i > 60 {
			sb.WriteString("…")
			break
		}
		if d.Kind == 'b' {
			if d.Val == 1 {
				sb.WriteString("T")
			} else {
				sb.WriteString("F")
			}
		} else {
			fmt.Fprintf(&sb, "<%d>", d.Val)
		}
	}
	return sb.String()
}

// newExec prepares a fresh execution state for one path.
func newExec(w *World, sv *Solver, h *Harness, cfg *RunCfg) *Exec {
	ex := &Exec{W: w, ts: NewTermStore(), sv: sv, harness: h}
	c := *cfg
	ex.cfg = &c
	ex.pcSet = map[*Term]bool{}
	ex.model = Model{}
	ex.ecache = evalCache{}
	ex.globals = map[*ssa.Global]*Ptr{}
	ex.initDone = map[*ssa.Package]bool{}
	ex.tags = map[string]string{}
	ex.nondetSeq = map[string]int{}
	ex.inputSet = map[string]bool{}
	ex.reach = map[string]int{}
	ex.funcsUsed = map[*ssa.Function]bool{}
	ex.stubsUsed = map[string]bool{}
	ex.loopBound = 100000
	ex.monitorShared = true
	return ex
}

func (ex *Exec) runInit() {
	ex.inInit = true
	p := ex.W.pkgs[ex.harness.Pkg]
	if init := p.Func("init"); init != nil {
		if _, pan := ex.call(init, nil, nil, nil); pan != nil {
			panic(ex.unsupported("panic during package init: " + pan.msg))
		}
	}
	// everything reachable from package-level variables is shared state
	seen := map[*Obj]bool{}
	for g, ptr := range ex.globals {
		if ex.W.isHarnessGlobal(g) {
			continue
		}
		o := ptr.base.owner()
		if !seen[o] {
			seen[o] = true
			reachable(o.slot, seen, map[Container]bool{})
		}
	}
	for o := range seen {
		o.shared = true
	}
	ex.inInit = false
}

func (w *World) runPath(sv *Solver, h *Harness, cfg *RunCfg, item WorkItem, concrete Model) (res pathResult) {
	ex := newExec(w, sv, h, cfg)
	ex.prefix = item.prefix
	if item.model != nil {
		ex.model = item.model
	}
	ex.concrete = concrete
	if concrete != nil {
		ex.model = concrete
		ex.sv = nil
	}
	if ex.sv != nil {
		ex.sv.Push()
		defer ex.sv.Pop()
	}
	defer func() {
		if r := recover(); r != nil {
			switch e := r.(type) {
			case pathEnd:
				res.end = e.reason
			case unsupportedErr:
				res.end = "unsupported"
				res.unsupported = e.msg + "\n    " + e.stack
			default:
				res.end = "engine-panic"
				res.unsupported = fmt.Sprintf("engine panic: %v\n%s", r, debug.Stack())
			}
		}
		res.children = ex.children
		res.findings = ex.findings
		res.reach = ex.reach
		res.inconcl = ex.inconcl
		res.instrs = ex.instrs
		res.model = ex.model
		res.choices = ex.choiceVals
		res.funcs = ex.funcsUsed
		res.stubs = ex.stubsUsed
		res.trace = ex.trace
		res.pcSize = len(ex.pc)
		res.maxConc = ex.maxConc
		res.sharedWrites = ex.sharedWrites
		res.atomicEvents = ex.atomicEvents
		for _, in := range ex.inputs {
			res.inputs = append(res.inputs, in.name)
		}
		res.observes = ex.observes
		// attach choice values to findings' models
		for _, f := range res.findings {
			if f.Model == nil {
				f.Model = map[string]string{}
			}
			for k, v := range ex.choiceVals {
				f.Model[k] = fmt.Sprintf("%d", v)
			}
		}
	}()
	ex.runInit()
	_, pan := ex.call(h.Fn, nil, nil, nil)
	if pan != nil {
		if ex.concrete != nil {
			ex.observes = append(ex.observes, "panic")
		}
		if !ex.replaying() {
			ex.reportPanic(pan)
		}
		res.end = "panic"
		return
	}
	if ex.replaying() {
		res.end = "engine-panic"
		res.unsupported = fmt.Sprintf("replay divergence: path ended with %d of %d decisions consumed", ex.pos, len(ex.prefix))
		return
	}
	res.end = "return"
	return
}

// Explore runs one harness to completion (or budget).
func (w *World) Explore(h *Harness, cfg *RunCfg) *HarnessResult {
	return w.ExploreAll([]*Harness{h}, cfg)[0]
}

type workItem struct {
	hi int
	WorkItem
}

// ExploreAll explores several harnesses with one shared pool of workers (one solver each).
// cfg.MaxPaths and cfg.Deadline apply per harness (deadline measured from the harness's first path).
func (w *World) ExploreAll(hs []*Harness, cfg *RunCfg) []*HarnessResult {
	results := make([]*HarnessResult, len(hs))
	starts := make([]time.Time, len(hs))
	pending := make([]int, len(hs)) // queued + active items per harness
	stopped := make([]bool, len(hs))
	unsupportedSeen := make([]map[string]bool, len(hs))
	var work []workItem
	for i := len(hs) - 1; i >= 0; i-- {
		results[i] = &HarnessResult{Harness: hs[i], Ends: map[string]int{}, Findings: map[string]*Finding{}, Reach: map[string]int{}, Inconcl: map[string]int{}, Funcs: map[string]bool{}, Stubs: map[string]bool{}}
		unsupportedSeen[i] = map[string]bool{}
		work = append(work, workItem{hi: i})
		pending[i] = 1
	}
	var mu sync.Mutex
	cond := sync.NewCond(&mu)
	active := 0
	fatal := false
	perHarness := time.Duration(0)
	if !cfg.Deadline.IsZero() {
		perHarness = time.Until(cfg.Deadline)
	}

	worker := func() {
		var sv *Solver
		flush := func(hr *HarnessResult) {
			if sv == nil {
				return
			}
			hr.Queries += sv.Queries
			hr.SolverTime += sv.Time
			hr.NSat += sv.NSat
			hr.NUnsat += sv.NUnsat
			hr.NUnk += sv.NUnk
			sv.Queries, sv.Time, sv.NSat, sv.NUnsat, sv.NUnk = 0, 0, 0, 0, 0
		}
		defer func() {
			if sv != nil {
				sv.Close()
			}
		}()
		npaths := 0
		for {
			mu.Lock()
			for len(work) == 0 && active > 0 && !fatal {
				cond.Wait()
			}
			if fatal || (len(work) == 0 && active == 0) {
				cond.Broadcast()
				mu.Unlock()
				return
			}
			item := work[len(work)-1]
			work = work[:len(work)-1]
			if stopped[item.hi] {
				pending[item.hi]--
				mu.Unlock()
				continue
			}
			active++
			if starts[item.hi].IsZero() {
				starts[item.hi] = time.Now()
			}
			mu.Unlock()

			if sv == nil || sv.dead || npaths%1500 == 1499 {
				if sv != nil {
					if sv.dead {
						mu.Lock()
						results[item.hi].Inconcl["solver process died"]++
						mu.Unlock()
					}
					sv.Close()
				}
				var err error
				sv, err = NewSolver(SolverZ3, cfg.SolverMs)
				if err != nil {
					fmt.Fprintln(os.Stderr, "cannot start solver:", err)
					mu.Lock()
					results[item.hi].Inconcl["cannot start solver"]++
					fatal = true
					active--
					cond.Broadcast()
					mu.Unlock()
					return
				}
			}
			h := hs[item.hi]
			res := w.runPath(sv, h, cfg, item.WorkItem, nil)
			npaths++

			mu.Lock()
			hr := results[item.hi]
			flush(hr)
			active--
			pending[item.hi]--
			hr.Paths++
			hr.Ends[res.end]++
			if res.end == "return" {
				hr.NormalEnds++
			}
			hr.Instrs += res.instrs
			hr.Forks += len(res.children)
			hr.SharedWrites += res.sharedWrites
			hr.AtomicEvents += res.atomicEvents
			if res.maxConc > hr.MaxConc {
				hr.MaxConc = res.maxConc
			}
			for _, f := range res.findings {
				k := f.Key()
				if old, ok := hr.Findings[k]; ok {
					old.Count++
				} else {
					hr.Findings[k] = f
				}
			}
			for k, v := range res.reach {
				hr.Reach[k] += v
			}
			for _, s := range res.inconcl {
				hr.Inconcl[s]++
			}
			for f := range res.funcs {
				hr.Funcs[f.String()] = true
			}
			for s := range res.stubs {
				hr.Stubs[s] = true
			}
			if res.unsupported != "" && !unsupportedSeen[item.hi][res.unsupported] {
				unsupportedSeen[item.hi][res.unsupported] = true
				if len(hr.Unsupported) < 20 {
					hr.Unsupported = append(hr.Unsupported, res.unsupported)
				}
			}
			if len(hr.Samples) < 2 || (hr.Paths%257 == 0 && len(hr.Samples) < 6) {
				wit := map[string]string{}
				for i, n := range res.inputs {
					if i >= 24 {
						break
					}
					if v, ok := res.model[n]; ok {
						wit[n] = v.String()
					} else {
						wit[n] = "0"
					}
				}
				for k, v := range res.choices {
					wit[k] = fmt.Sprintf("%d", v)
				}
				hr.Samples = append(hr.Samples, PathSample{Harness: h.Name, Decisions: decisionsString(res.trace), PCSize: res.pcSize, End: res.end, Witness: wit, Instrs: res.instrs})
			}
			if (res.end == "return" || res.end == "panic") && (len(hr.Models) < 3 || (hr.Paths%61 == 0 && len(hr.Models) < 12)) {
				vals := modelToStrings(res.model)
				for k, v := range res.choices {
					vals[k] = fmt.Sprintf("%d", v)
				}
				hr.Models = append(hr.Models, replayCase{Harness: h.Name, Values: vals})
			}
			if !stopped[item.hi] {
				for _, c := range res.children {
					work = append(work, workItem{hi: item.hi, WorkItem: c})
					pending[item.hi]++
				}
				if cfg.MaxPaths > 0 && hr.Paths >= cfg.MaxPaths && pending[item.hi] > 0 {
					hr.Inconcl[fmt.Sprintf("path budget %d exhausted", cfg.MaxPaths)]++
					stopped[item.hi] = true
				}
				if perHarness > 0 && time.Since(starts[item.hi]) > perHarness && pending[item.hi] > 0 {
					hr.Inconcl["time budget exhausted"]++
					stopped[item.hi] = true
				}
			}
			if pending[item.hi] == 0 || stopped[item.hi] {
				hr.Wall = time.Since(starts[item.hi])
			}
			cond.Broadcast()
			mu.Unlock()
		}
	}
	var wg sync.WaitGroup
	n := cfg.Workers
	if n <= 0 {
		n = 1
	}
	for i := 0; i < n; i++ {
		wg.Add(1)
		go func() { defer wg.Done(); worker() }()
	}
	wg.Wait()
	return results
}

func sortedKeys(m map[string]bool) []string {
	var ks []string
	for k := range m {
		ks = append(ks, k)
	}
	sort.Strings(ks)
	return ks
}
