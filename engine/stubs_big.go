package main

type bigVal struct{ mag *Term }

func registerBigIntrinsics()     {}
func registerReflectIntrinsics() {}
