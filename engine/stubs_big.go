package main

// Contract models for math/big.Int and reflect.Value (DESIGN §2.6), as far as
// openflow13.NewMatchField / conv / rangeMask / big2byte use them.
//
// big.Int keeps its real struct layout {neg bool; abs nat}: abs is held as a slice of bigWords
// 64-bit word terms (little-endian, NOT normalised — only these intrinsics ever look at it),
// so pointer identity and in-place mutation of a caller's *big.Int are exact. Magnitudes are
// bigBits wide; a shift that would lose bits above that width ends the path as out of the
// model's bound (stated in the evidence).

import (
	"fmt"
	"go/types"

	"golang.org/x/tools/go/ssa"
)

const (
	bigWords = 4
	bigBits  = 64 * bigWords
)

type bigVal struct{ mag *Term }

func (ex *Exec) bigStruct(v Value, what string) (*StructV, *Panic) {
	p, ok := v.(*Ptr)
	if !ok || p.IsNil() {
		return nil, ex.runtimePanic("nil", "invalid memory address or nil pointer dereference (nil *big.Int in "+what+")")
	}
	sv, ok := p.base.get(p.idx).(*StructV)
	if !ok || len(sv.f) != 2 {
		panic(ex.unsupported("big.Int with unexpected layout"))
	}
	return sv, nil
}

// bigGet returns (neg, magnitude) of the big.Int struct.
func (ex *Exec) bigGet(sv *StructV) (*Term, *Term) {
	ex.noteRead(sv.own)
	neg := sv.f[0].(*Term)
	abs := sv.f[1].(*SliceV)
	mag := ex.ts.Const(bigBits, 0)
	var acc *Term
	for i := bigWords - 1; i >= 0; i-- {
		var w *Term
		if abs.arr != nil && i < abs.len {
			w = abs.arr.e[abs.off+i].(*Term)
		} else {
			w = ex.ts.Const(64, 0)
		}
		if acc == nil {
			acc = w
		} else {
			acc = ex.ts.Concat(acc, w)
		}
	}
	if acc != nil {
		mag = acc
	}
	if abs.arr != nil && abs.len > bigWords {
		panic(ex.unsupported("big.Int wider than the model"))
	}
	return neg, mag
}

func (ex *Exec) bigSet(sv *StructV, neg, mag *Term) {
	ex.noteWrite(sv.own)
	// zero is never negative
	isZero := ex.ts.Cmp(OpEq, mag, ex.ts.Const(bigBits, 0))
	neg = ex.ts.And(neg, ex.ts.Not(isZero))
	sv.f[0] = neg
	// like nat.make: the receiver's word array is reused when it has room (so a receiver that
	// shares its words with another big.Int — SetBits(x.Bits()) — writes through to it), a new one
	// is allocated otherwise
	if old, ok := sv.f[1].(*SliceV); ok && old.arr != nil && old.cap >= bigWords {
		ex.noteWrite(old.arr.own)
		for i := 0; i < bigWords; i++ {
			old.arr.e[old.off+i] = ex.ts.Extract(mag, uint16(64*i+63), uint16(64*i))
		}
		sv.f[1] = &SliceV{arr: old.arr, off: old.off, len: bigWords, cap: old.cap}
		return
	}
	arr := ex.newArray(types.Typ[types.Uint], bigWords, "big.Int words")
	for i := 0; i < bigWords; i++ {
		arr.e[i] = ex.ts.Extract(mag, uint16(64*i+63), uint16(64*i))
	}
	sv.f[1] = &SliceV{arr: arr, off: 0, len: bigWords, cap: bigWords}
}

// signed value in bigBits+16 bits two's complement
func (ex *Exec) bigSigned(neg, mag *Term) *Term {
	w := uint16(bigBits + 16)
	m := ex.ts.ZExt(mag, w)
	return ex.ts.Ite(neg, ex.ts.Neg(m), m)
}

func (ex *Exec) bigFromSigned(v *Term) (*Term, *Term) {
	w := v.w
	neg := ex.ts.Cmp(OpSlt, v, ex.ts.Const(w, 0))
	abs := ex.ts.Ite(neg, ex.ts.Neg(v), v)
	return neg, ex.ts.Extract(abs, bigBits-1, 0)
}

// bigBitLen introduces a fresh variable bl constrained to be the bit length of mag.
func (ex *Exec) bigBitLen(mag *Term) *Term {
	if mag.IsConst() {
		return ex.ts.Const(64, uint64(mag.Big().BitLen()))
	}
	ts := ex.ts
	bl := ex.input(ex.freshName("big.bitlen"), 64)
	blw := ts.ZExt(bl, bigBits)
	zero := ts.Const(bigBits, 0)
	c1 := ts.Cmp(OpUle, bl, ts.Const(64, bigBits))
	c2 := ts.Cmp(OpEq, ts.Bin(OpLShr, mag, blw), zero)
	c3 := ts.Or(ts.Cmp(OpEq, bl, ts.Const(64, 0)),
		ts.Not(ts.Cmp(OpEq, ts.Bin(OpLShr, mag, ts.Bin(OpSub, blw, ts.Const(bigBits, 1))), zero)))
	ex.assume(ts.And(c1, ts.And(c2, c3)))
	return bl
}

// bigByteLen: the number of bytes of the minimal big-endian representation, as a chain over bytes.
func (ex *Exec) bigByteLen(mag *Term) *Term {
	if mag.IsConst() {
		return ex.ts.Const(64, uint64((mag.Big().BitLen()+7)/8))
	}
	ts := ex.ts
	r := ts.Const(64, 0)
	zero := ts.Const(8, 0)
	for i := 0; i < bigBits/8; i++ {
		nz := ts.Not(ts.Cmp(OpEq, ts.Extract(mag, uint16(8*i+7), uint16(8*i)), zero))
		r = ts.Ite(nz, ts.Const(64, uint64(i+1)), r)
	}
	return r
}

func registerBigIntrinsics() {
	recv := func(name string) string { return "(*math/big.Int)." + name }
	intrinsics[recv("SetInt64")] = func(ex *Exec, fn *ssa.Function, a []Value) (Value, *Panic) {
		ex.stubsUsed["math/big.Int = sign + 256-bit magnitude (contract model)"] = true
		z, pan := ex.bigStruct(a[0], "SetInt64")
		if pan != nil {
			return nil, pan
		}
		x := a[1].(*Term)
		neg, mag := ex.bigFromSigned(ex.ts.SExt(x, bigBits+16))
		ex.bigSet(z, neg, mag)
		return a[0], nil
	}
	intrinsics[recv("SetUint64")] = func(ex *Exec, fn *ssa.Function, a []Value) (Value, *Panic) {
		ex.stubsUsed["math/big.Int = sign + 256-bit magnitude (contract model)"] = true
		z, pan := ex.bigStruct(a[0], "SetUint64")
		if pan != nil {
			return nil, pan
		}
		ex.bigSet(z, ex.ts.Fals, ex.ts.ZExt(a[1].(*Term), bigBits))
		return a[0], nil
	}
	intrinsics[recv("SetBytes")] = func(ex *Exec, fn *ssa.Function, a []Value) (Value, *Panic) {
		ex.stubsUsed["math/big.Int = sign + 256-bit magnitude (contract model)"] = true
		z, pan := ex.bigStruct(a[0], "SetBytes")
		if pan != nil {
			return nil, pan
		}
		buf := a[1].(*SliceV)
		if buf.len > bigBits/8 {
			panic(ex.unsupported("big.Int.SetBytes longer than the model width"))
		}
		mag := ex.ts.Const(bigBits, 0)
		for i := 0; i < buf.len; i++ {
			b := ex.ts.ZExt(buf.arr.e[buf.off+i].(*Term), bigBits)
			mag = ex.ts.Bin(OpOr, ex.ts.Bin(OpShl, mag, ex.ts.Const(bigBits, 8)), b)
		}
		if buf.arr != nil {
			ex.noteRead(buf.arr.own)
		}
		ex.bigSet(z, ex.ts.Fals, mag)
		return a[0], nil
	}
	intrinsics["math/big.NewInt"] = func(ex *Exec, fn *ssa.Function, a []Value) (Value, *Panic) {
		ex.stubsUsed["math/big.Int = sign + 256-bit magnitude (contract model)"] = true
		pt := fn.Signature.Results().At(0).Type().(*types.Pointer)
		p := ex.alloc(pt.Elem(), "big.NewInt")
		sv := p.base.get(p.idx).(*StructV)
		neg, mag := ex.bigFromSigned(ex.ts.SExt(a[0].(*Term), bigBits+16))
		ex.bigSet(sv, neg, mag)
		return p, nil
	}
	intrinsics[recv("Lsh")] = func(ex *Exec, fn *ssa.Function, a []Value) (Value, *Panic) {
		z, pan := ex.bigStruct(a[0], "Lsh")
		if pan != nil {
			return nil, pan
		}
		x, pan := ex.bigStruct(a[1], "Lsh")
		if pan != nil {
			return nil, pan
		}
		n := a[2].(*Term) // uint
		neg, mag := ex.bigGet(x)
		ts := ex.ts
		// a shift count beyond anything a match field can hold makes the real implementation
		// allocate count/64 words: report it as an allocation the input controls
		huge := ts.And(ts.Cmp(OpUlt, ts.Const(64, 1<<20), n), ts.Not(ts.Cmp(OpEq, mag, ts.Const(bigBits, 0))))
		if !huge.IsFalse() && ex.branch(huge) {
			ex.reportSite("alloc", "oversize", "big.Int.Lsh by an input-controlled count above 2^20 bits")
			ex.endPath("alloc-limit")
		}
		nw := ts.ZExt(n, bigBits)
		res := ts.Bin(OpShl, mag, nw)
		// bits shifted out of the model's width: out of bound
		lost := ts.Not(ts.Cmp(OpEq, ts.Bin(OpLShr, res, nw), mag))
		if !lost.IsFalse() {
			if ex.branch(lost) {
				ex.inconcl = append(ex.inconcl, "big.Int.Lsh result exceeds the 256-bit model")
				ex.endPath("big-model-bound")
			}
		}
		ex.bigSet(z, neg, res)
		return a[0], nil
	}
	intrinsics[recv("BitLen")] = func(ex *Exec, fn *ssa.Function, a []Value) (Value, *Panic) {
		x, pan := ex.bigStruct(a[0], "BitLen")
		if pan != nil {
			return nil, pan
		}
		_, mag := ex.bigGet(x)
		return ex.bigBitLen(mag), nil
	}
	intrinsics[recv("And")] = func(ex *Exec, fn *ssa.Function, a []Value) (Value, *Panic) {
		z, pan := ex.bigStruct(a[0], "And")
		if pan != nil {
			return nil, pan
		}
		x, pan := ex.bigStruct(a[1], "And")
		if pan != nil {
			return nil, pan
		}
		y, pan := ex.bigStruct(a[2], "And")
		if pan != nil {
			return nil, pan
		}
		ts := ex.ts
		xn, xm := ex.bigGet(x)
		yn, ym := ex.bigGet(y)
		// two's complement semantics on infinite precision: compute in bigBits+16 bits
		r := ts.Bin(OpAnd, ex.bigSigned(xn, xm), ex.bigSigned(yn, ym))
		neg, mag := ex.bigFromSigned(r)
		ex.bigSet(z, neg, mag)
		return a[0], nil
	}
	intrinsics[recv("Sub")] = func(ex *Exec, fn *ssa.Function, a []Value) (Value, *Panic) {
		z, pan := ex.bigStruct(a[0], "Sub")
		if pan != nil {
			return nil, pan
		}
		x, pan := ex.bigStruct(a[1], "Sub")
		if pan != nil {
			return nil, pan
		}
		y, pan := ex.bigStruct(a[2], "Sub")
		if pan != nil {
			return nil, pan
		}
		xn, xm := ex.bigGet(x)
		yn, ym := ex.bigGet(y)
		r := ex.ts.Bin(OpSub, ex.bigSigned(xn, xm), ex.bigSigned(yn, ym))
		neg, mag := ex.bigFromSigned(r)
		ex.bigSet(z, neg, mag)
		return a[0], nil
	}
	intrinsics[recv("Cmp")] = func(ex *Exec, fn *ssa.Function, a []Value) (Value, *Panic) {
		x, pan := ex.bigStruct(a[0], "Cmp")
		if pan != nil {
			return nil, pan
		}
		y, pan := ex.bigStruct(a[1], "Cmp")
		if pan != nil {
			return nil, pan
		}
		ts := ex.ts
		xn, xm := ex.bigGet(x)
		yn, ym := ex.bigGet(y)
		xs, ys := ex.bigSigned(xn, xm), ex.bigSigned(yn, ym)
		lt := ts.Cmp(OpSlt, xs, ys)
		eq := ts.Cmp(OpEq, xs, ys)
		return ts.Ite(lt, ts.Const(64, ^uint64(0)), ts.Ite(eq, ts.Const(64, 0), ts.Const(64, 1))), nil
	}
	intrinsics[recv("Sign")] = func(ex *Exec, fn *ssa.Function, a []Value) (Value, *Panic) {
		x, pan := ex.bigStruct(a[0], "Sign")
		if pan != nil {
			return nil, pan
		}
		ts := ex.ts
		n, m := ex.bigGet(x)
		z := ts.Cmp(OpEq, m, ts.Const(bigBits, 0))
		return ts.Ite(z, ts.Const(64, 0), ts.Ite(n, ts.Const(64, ^uint64(0)), ts.Const(64, 1))), nil
	}
	intrinsics[recv("Bytes")] = func(ex *Exec, fn *ssa.Function, a []Value) (Value, *Panic) {
		x, pan := ex.bigStruct(a[0], "Bytes")
		if pan != nil {
			return nil, pan
		}
		ts := ex.ts
		_, mag := ex.bigGet(x)
		n := int(ex.concretize(ex.bigByteLen(mag), "big.Int.Bytes length"))
		arr := ex.newArray(types.Typ[types.Byte], n, "big.Int.Bytes")
		for i := 0; i < n; i++ {
			lo := uint16(8 * (n - 1 - i))
			arr.e[i] = ts.Extract(mag, lo+7, lo)
		}
		return &SliceV{arr: arr, off: 0, len: n, cap: n}, nil
	}
	intrinsics[recv("Uint64")] = func(ex *Exec, fn *ssa.Function, a []Value) (Value, *Panic) {
		x, pan := ex.bigStruct(a[0], "Uint64")
		if pan != nil {
			return nil, pan
		}
		_, mag := ex.bigGet(x)
		return ex.ts.Extract(mag, 63, 0), nil
	}
	intrinsics[recv("Set")] = func(ex *Exec, fn *ssa.Function, a []Value) (Value, *Panic) {
		z, pan := ex.bigStruct(a[0], "Set")
		if pan != nil {
			return nil, pan
		}
		x, pan := ex.bigStruct(a[1], "Set")
		if pan != nil {
			return nil, pan
		}
		n, m := ex.bigGet(x)
		ex.bigSet(z, n, m)
		return a[0], nil
	}
}

// ---- reflect.Value, as far as conv() uses it ----

type reflVal struct {
	t types.Type
	v Value
}

// reflect.Kind values
var reflKinds = map[types.BasicKind]uint64{
	types.Bool: 1, types.Int: 2, types.Int8: 3, types.Int16: 4, types.Int32: 5, types.Int64: 6,
	types.Uint: 7, types.Uint8: 8, types.Uint16: 9, types.Uint32: 10, types.Uint64: 11, types.Uintptr: 12,
	types.String: 24,
}

func registerReflectIntrinsics() {
	rv := func(v Value) *reflVal {
		o, ok := v.(*OpaqueV)
		if !ok || o.kind != "reflect.Value" {
			return nil
		}
		return o.x.(*reflVal)
	}
	intrinsics["reflect.ValueOf"] = func(ex *Exec, fn *ssa.Function, a []Value) (Value, *Panic) {
		ex.stubsUsed["reflect.ValueOf/Kind/Int/Uint/Bytes/Interface from the concrete dynamic type"] = true
		iv := a[0].(*IfaceV)
		return &OpaqueV{kind: "reflect.Value", x: &reflVal{t: iv.t, v: iv.v}}, nil
	}
	intrinsics["(reflect.Value).Kind"] = func(ex *Exec, fn *ssa.Function, a []Value) (Value, *Panic) {
		r := rv(a[0])
		k := uint64(0)
		if r != nil && r.t != nil {
			switch u := r.t.Underlying().(type) {
			case *types.Basic:
				k = reflKinds[u.Kind()]
			case *types.Slice:
				k = 23
			case *types.Pointer:
				k = 22
			case *types.Array:
				k = 17
			case *types.Struct:
				k = 25
			case *types.Map:
				k = 21
			case *types.Interface:
				k = 20
			}
		}
		return ex.ts.Const(64, k), nil
	}
	intrinsics["(reflect.Value).Int"] = func(ex *Exec, fn *ssa.Function, a []Value) (Value, *Panic) {
		r := rv(a[0])
		t, ok := r.v.(*Term)
		if !ok {
			return nil, ex.explicitPanic(&IfaceV{t: types.Typ[types.String], v: StrV("reflect: call of reflect.Value.Int on non-int Value")})
		}
		return ex.ts.Resize(t, 64, true), nil
	}
	intrinsics["(reflect.Value).Uint"] = func(ex *Exec, fn *ssa.Function, a []Value) (Value, *Panic) {
		r := rv(a[0])
		t, ok := r.v.(*Term)
		if !ok {
			return nil, ex.explicitPanic(&IfaceV{t: types.Typ[types.String], v: StrV("reflect: call of reflect.Value.Uint on non-uint Value")})
		}
		return ex.ts.Resize(t, 64, false), nil
	}
	intrinsics["(reflect.Value).Bytes"] = func(ex *Exec, fn *ssa.Function, a []Value) (Value, *Panic) {
		r := rv(a[0])
		s, ok := r.v.(*SliceV)
		if !ok {
			return nil, ex.explicitPanic(&IfaceV{t: types.Typ[types.String], v: StrV("reflect: call of reflect.Value.Bytes on non-slice Value")})
		}
		return s, nil
	}
	intrinsics["(reflect.Value).Interface"] = func(ex *Exec, fn *ssa.Function, a []Value) (Value, *Panic) {
		r := rv(a[0])
		if r.t == nil {
			return nilIface, nil
		}
		return &IfaceV{t: r.t, v: r.v}, nil
	}
	_ = fmt.Sprintf
}
