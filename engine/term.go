package main

// Hash-consed bit-vector / Bool terms with constant folding, SMT-LIB2 printing and
// evaluation under a concrete assignment.

import (
	"fmt"
	"math/big"
	"math/bits"
	"strings"
)

type Op uint8

const (
	OpConst Op = iota
	OpVar
	OpAdd
	OpSub
	OpMul
	OpUDiv
	OpURem
	OpSDiv
	OpSRem
	OpAnd
	OpOr
	OpXor
	OpNot // bitwise not (bv) / logical not (bool)
	OpNeg
	OpShl
	OpLShr
	OpAShr
	OpConcat
	OpExtract // k = hi<<16 | lo
	OpZExt
	OpSExt
	OpIte
	OpEq
	OpUlt
	OpUle
	OpSlt
	OpSle
	OpBAnd // bool and
	OpBOr  // bool or
)

var opNames = map[Op]string{
	OpAdd: "bvadd", OpSub: "bvsub", OpMul: "bvmul", OpUDiv: "bvudiv", OpURem: "bvurem", OpSDiv: "bvsdiv", OpSRem: "bvsrem",
	OpAnd: "bvand", OpOr: "bvor", OpXor: "bvxor", OpNot: "bvnot", OpNeg: "bvneg", OpShl: "bvshl", OpLShr: "bvlshr", OpAShr: "bvashr",
	OpConcat: "concat", OpIte: "ite", OpEq: "=", OpUlt: "bvult", OpUle: "bvule", OpSlt: "bvslt", OpSle: "bvsle", OpBAnd: "and", OpBOr: "or",
}

// Term is immutable. w == 0 means Bool.
type Term struct {
	op      Op
	w       uint16
	a, b, c *Term
	k       uint64   // constant (w<=64) | extract hi<<16|lo
	big     *big.Int // wide constant (w>64)
	name    string   // variable name
	id      int
}

type termKey struct {
	op      Op
	w       uint16
	a, b, c *Term
	k       uint64
	s       string
}

type TermStore struct {
	tab  map[termKey]*Term
	next int
	True *Term
	Fals *Term
}

func NewTermStore() *TermStore {
	ts := &TermStore{tab: make(map[termKey]*Term, 4096)}
	ts.True = ts.mk(termKey{op: OpConst, w: 0, k: 1}, nil)
	ts.Fals = ts.mk(termKey{op: OpConst, w: 0, k: 0}, nil)
	return ts
}

func (ts *TermStore) mk(k termKey, bg *big.Int) *Term {
	if t, ok := ts.tab[k]; ok {
		return t
	}
	ts.next++
	t := &Term{op: k.op, w: k.w, a: k.a, b: k.b, c: k.c, k: k.k, big: bg, id: ts.next}
	if k.op == OpVar {
		t.name = k.s
	}
	ts.tab[k] = t
	return t
}

func mask64(w uint16) uint64 {
	if w >= 64 {
		return ^uint64(0)
	}
	return (uint64(1) << w) - 1
}

func bigMask(w uint16) *big.Int {
	m := new(big.Int).Lsh(big.NewInt(1), uint(w))
	return m.Sub(m, big.NewInt(1))
}

func (t *Term) IsConst() bool { return t.op == OpConst }
func (t *Term) IsBool() bool  { return t.w == 0 }
func (t *Term) IsTrue() bool  { return t.op == OpConst && t.w == 0 && t.k == 1 }
func (t *Term) IsFalse() bool { return t.op == OpConst && t.w == 0 && t.k == 0 }

// Uint returns the constant value (w<=64).
func (t *Term) Uint() uint64 { return t.k }

// Int returns the constant as signed w-bit value.
func (t *Term) Int() int64 {
	if t.w >= 64 {
		return int64(t.k)
	}
	if t.k&(uint64(1)<<(t.w-1)) != 0 {
		return int64(t.k | ^mask64(t.w))
	}
	return int64(t.k)
}

func (t *Term) Big() *big.Int {
	if t.w > 64 {
		return t.big
	}
	return new(big.Int).SetUint64(t.k)
}

func (ts *TermStore) Bool(b bool) *Term {
	if b {
		return ts.True
	}
	return ts.Fals
}

func (ts *TermStore) Const(w uint16, v uint64) *Term {
	if w == 0 {
		return ts.Bool(v != 0)
	}
	if w > 64 {
		return ts.ConstBig(w, new(big.Int).SetUint64(v))
	}
	return ts.mk(termKey{op: OpConst, w: w, k: v & mask64(w)}, nil)
}

func (ts *TermStore) ConstBig(w uint16, v *big.Int) *Term {
	if w <= 64 {
		m := new(big.Int).And(v, bigMask(w))
		return ts.Const(w, m.Uint64())
	}
	m := new(big.Int).And(v, bigMask(w))
	return ts.mk(termKey{op: OpConst, w: w, s: m.Text(16)}, m)
}

func (ts *TermStore) Var(w uint16, name string) *Term {
	return ts.mk(termKey{op: OpVar, w: w, s: name}, nil)
}

func sext64(v uint64, w uint16) int64 {
	if w >= 64 {
		return int64(v)
	}
	if v&(uint64(1)<<(w-1)) != 0 {
		return int64(v | ^mask64(w))
	}
	return int64(v)
}

// ---- evaluation of one operator on constants (w<=64 fast path; wide via big.Int) ----

func foldBin64(op Op, w uint16, x, y uint64) (uint64, bool) {
	m := mask64(w)
	switch op {
	case OpAdd:
		return (x + y) & m, true
	case OpSub:
		return (x - y) & m, true
	case OpMul:
		return (x * y) & m, true
	case OpUDiv:
		if y == 0 {
			return m, true
		}
		return x / y, true
	case OpURem:
		if y == 0 {
			return x, true
		}
		return x % y, true
	case OpSDiv:
		sx, sy := sext64(x, w), sext64(y, w)
		if sy == 0 {
			if sx >= 0 {
				return m, true
			}
			return 1, true
		}
		if sy == -1 {
			return uint64(-sx) & m, true
		}
		return uint64(sx/sy) & m, true
	case OpSRem:
		sx, sy := sext64(x, w), sext64(y, w)
		if sy == 0 {
			return x, true
		}
		if sy == -1 {
			return 0, true
		}
		return uint64(sx%sy) & m, true
	case OpAnd:
		return x & y, true
	case OpOr:
		return x | y, true
	case OpXor:
		return x ^ y, true
	case OpShl:
		if y >= uint64(w) {
			return 0, true
		}
		return (x << y) & m, true
	case OpLShr:
		if y >= uint64(w) {
			return 0, true
		}
		return x >> y, true
	case OpAShr:
		sx := sext64(x, w)
		if y >= uint64(w) {
			if sx < 0 {
				return m, true
			}
			return 0, true
		}
		return uint64(sx>>y) & m, true
	}
	return 0, false
}

func foldCmp64(op Op, w uint16, x, y uint64) bool {
	switch op {
	case OpEq:
		return x == y
	case OpUlt:
		return x < y
	case OpUle:
		return x <= y
	case OpSlt:
		return sext64(x, w) < sext64(y, w)
	case OpSle:
		return sext64(x, w) <= sext64(y, w)
	}
	panic("foldCmp64")
}

func bigSigned(v *big.Int, w uint16) *big.Int {
	if v.Bit(int(w)-1) == 1 {
		return new(big.Int).Sub(v, new(big.Int).Lsh(big.NewInt(1), uint(w)))
	}
	return v
}

func foldBinBig(op Op, w uint16, x, y *big.Int) *big.Int {
	r := new(big.Int)
	switch op {
	case OpAdd:
		r.Add(x, y)
	case OpSub:
		r.Sub(x, y)
	case OpMul:
		r.Mul(x, y)
	case OpAnd:
		r.And(x, y)
	case OpOr:
		r.Or(x, y)
	case OpXor:
		r.Xor(x, y)
	case OpUDiv:
		if y.Sign() == 0 {
			return bigMask(w)
		}
		r.Quo(x, y)
	case OpURem:
		if y.Sign() == 0 {
			return x
		}
		r.Rem(x, y)
	case OpShl:
		if y.Cmp(big.NewInt(int64(w))) >= 0 {
			return r
		}
		r.Lsh(x, uint(y.Uint64()))
	case OpLShr:
		if y.Cmp(big.NewInt(int64(w))) >= 0 {
			return r
		}
		r.Rsh(x, uint(y.Uint64()))
	default:
		panic(fmt.Sprintf("foldBinBig: op %d unsupported on wide terms", op))
	}
	if r.Sign() < 0 {
		r.Add(r, new(big.Int).Lsh(big.NewInt(1), uint(w)))
	}
	return r.And(r, bigMask(w))
}

// ---- constructors ----

func (ts *TermStore) Bin(op Op, x, y *Term) *Term {
	if x.w != y.w {
		panic(fmt.Sprintf("Bin %s: width mismatch %d vs %d", opNames[op], x.w, y.w))
	}
	w := x.w
	if x.IsConst() && y.IsConst() {
		if w <= 64 {
			if v, ok := foldBin64(op, w, x.k, y.k); ok {
				return ts.Const(w, v)
			}
		} else {
			return ts.ConstBig(w, foldBinBig(op, w, x.big, y.big))
		}
	}
	// commutative: constant to the right
	switch op {
	case OpAdd, OpMul, OpAnd, OpOr, OpXor:
		if x.IsConst() {
			x, y = y, x
		}
	}
	// strength reduction for power-of-two constants (exact in two's complement; keeps the
	// solver away from divider/multiplier circuits)
	if y.IsConst() && w <= 64 && y.k != 0 && y.k&(y.k-1) == 0 && y.k != 1 {
		k := uint64(bits.TrailingZeros64(y.k))
		kc := ts.Const(w, k)
		switch op {
		case OpMul:
			return ts.Bin(OpShl, x, kc)
		case OpUDiv:
			return ts.Bin(OpLShr, x, kc)
		case OpURem:
			return ts.Bin(OpAnd, x, ts.Const(w, y.k-1))
		case OpSDiv:
			if sext64(y.k, w) > 0 {
				neg := ts.Cmp(OpSlt, x, ts.Const(w, 0))
				adj := ts.Ite(neg, ts.Const(w, y.k-1), ts.Const(w, 0))
				return ts.Bin(OpAShr, ts.Bin(OpAdd, x, adj), kc)
			}
		case OpSRem:
			if sext64(y.k, w) > 0 {
				q := ts.Bin(OpSDiv, x, y)
				return ts.Bin(OpSub, x, ts.Bin(OpShl, q, kc))
			}
		}
	}
	if y.IsConst() {
		zero := (w <= 64 && y.k == 0) || (w > 64 && y.big.Sign() == 0)
		ones := (w <= 64 && y.k == mask64(w)) || (w > 64 && y.big.Cmp(bigMask(w)) == 0)
		switch op {
		case OpAdd, OpSub, OpOr, OpXor, OpShl, OpLShr, OpAShr:
			if zero {
				return x
			}
			if op == OpOr && ones {
				return y
			}
		case OpAnd:
			if zero {
				return y
			}
			if ones {
				return x
			}
		case OpMul:
			if zero {
				return y
			}
			if w <= 64 && y.k == 1 {
				return x
			}
		case OpUDiv:
			if w <= 64 && y.k == 1 {
				return x
			}
		}
		if (op == OpShl || op == OpLShr) && w <= 64 && y.k >= uint64(w) {
			return ts.Const(w, 0)
		}
	}
	if x.IsConst() {
		zero := (w <= 64 && x.k == 0) || (w > 64 && x.big.Sign() == 0)
		if zero {
			switch op {
			case OpShl, OpLShr, OpAShr, OpUDiv, OpURem:
				// 0 op y: for div/rem by possibly-zero y SMT semantic differs, but the interpreter guards div by zero before.
				if op == OpShl || op == OpLShr || op == OpAShr {
					return x
				}
			}
		}
	}
	if x == y {
		switch op {
		case OpAnd, OpOr:
			return x
		case OpXor, OpSub:
			return ts.Const(w, 0)
		}
	}
	// (x << c1) >> c1 etc. are left to the solver.
	// and(zext8->w (b), 0xff) = same
	if op == OpAnd && y.IsConst() && w <= 64 && x.op == OpZExt {
		inw := x.a.w
		if y.k&mask64(inw) == mask64(inw) {
			return x
		}
	}
	// shifting a zero-extended byte left by k then or-ing is the common big-endian read; keep as is.
	return ts.mk(termKey{op: op, w: w, a: x, b: y}, nil)
}

func (ts *TermStore) Cmp(op Op, x, y *Term) *Term {
	if x.w != y.w {
		panic(fmt.Sprintf("Cmp %s: width mismatch %d vs %d", opNames[op], x.w, y.w))
	}
	if x.w == 0 {
		if op != OpEq {
			panic("Cmp on bool")
		}
		return ts.BoolEq(x, y)
	}
	if x.IsConst() && y.IsConst() {
		if x.w <= 64 {
			return ts.Bool(foldCmp64(op, x.w, x.k, y.k))
		}
		c := x.big.Cmp(y.big)
		switch op {
		case OpEq:
			return ts.Bool(c == 0)
		case OpUlt:
			return ts.Bool(c < 0)
		case OpUle:
			return ts.Bool(c <= 0)
		case OpSlt:
			return ts.Bool(bigSigned(x.big, x.w).Cmp(bigSigned(y.big, y.w)) < 0)
		case OpSle:
			return ts.Bool(bigSigned(x.big, x.w).Cmp(bigSigned(y.big, y.w)) <= 0)
		}
	}
	if x == y {
		switch op {
		case OpEq, OpUle, OpSle:
			return ts.True
		default:
			return ts.Fals
		}
	}
	if op == OpEq && x.IsConst() {
		x, y = y, x
	}
	if x.w <= 64 && y.IsConst() {
		// comparisons of a zero-extended narrow value with an out-of-range constant
		if x.op == OpZExt {
			inw := x.a.w
			lim := mask64(inw)
			switch op {
			case OpEq:
				if y.k > lim {
					return ts.Fals
				}
				return ts.Cmp(OpEq, x.a, ts.Const(inw, y.k))
			case OpUlt:
				if y.k > lim {
					return ts.True
				}
				return ts.Cmp(OpUlt, x.a, ts.Const(inw, y.k))
			case OpUle:
				if y.k >= lim {
					return ts.True
				}
				return ts.Cmp(OpUle, x.a, ts.Const(inw, y.k))
			case OpSlt, OpSle:
				if inw < x.w { // value is non-negative
					sy := sext64(y.k, y.w)
					if sy < 0 {
						return ts.Fals
					}
					if uint64(sy) > lim {
						return ts.True
					}
					if op == OpSlt {
						return ts.Cmp(OpUlt, x.a, ts.Const(inw, uint64(sy)))
					}
					return ts.Cmp(OpUle, x.a, ts.Const(inw, uint64(sy)))
				}
			}
		}
		if op == OpUlt && y.k == 0 {
			return ts.Fals
		}
		if op == OpUle && y.k == mask64(y.w) {
			return ts.True
		}
	}
	if x.w <= 64 && x.IsConst() && y.op == OpZExt && y.a.w < y.w {
		inw := y.a.w
		lim := mask64(inw)
		switch op {
		case OpUlt:
			if x.k >= lim {
				return ts.Fals
			}
			return ts.Cmp(OpUlt, ts.Const(inw, x.k), y.a)
		case OpUle:
			if x.k > lim {
				return ts.Fals
			}
			return ts.Cmp(OpUle, ts.Const(inw, x.k), y.a)
		case OpSlt, OpSle:
			sx := sext64(x.k, x.w)
			if sx < 0 {
				return ts.True
			}
			if op == OpSlt {
				if uint64(sx) >= lim {
					return ts.Fals
				}
				return ts.Cmp(OpUlt, ts.Const(inw, uint64(sx)), y.a)
			}
			if uint64(sx) > lim {
				return ts.Fals
			}
			return ts.Cmp(OpUle, ts.Const(inw, uint64(sx)), y.a)
		}
	}
	return ts.mk(termKey{op: op, w: 0, a: x, b: y}, nil)
}

func (ts *TermStore) BoolEq(x, y *Term) *Term {
	if x.IsConst() {
		x, y = y, x
	}
	if y.IsTrue() {
		return x
	}
	if y.IsFalse() {
		return ts.Not(x)
	}
	if x == y {
		return ts.True
	}
	return ts.mk(termKey{op: OpEq, w: 0, a: x, b: y}, nil)
}

func (ts *TermStore) Not(x *Term) *Term {
	if x.w == 0 {
		if x.IsConst() {
			return ts.Bool(x.k == 0)
		}
		if x.op == OpNot {
			return x.a
		}
		return ts.mk(termKey{op: OpNot, w: 0, a: x}, nil)
	}
	if x.IsConst() {
		if x.w <= 64 {
			return ts.Const(x.w, ^x.k)
		}
		return ts.ConstBig(x.w, new(big.Int).Xor(x.big, bigMask(x.w)))
	}
	if x.op == OpNot {
		return x.a
	}
	return ts.mk(termKey{op: OpNot, w: x.w, a: x}, nil)
}

func (ts *TermStore) Neg(x *Term) *Term {
	if x.IsConst() && x.w <= 64 {
		return ts.Const(x.w, -x.k)
	}
	return ts.Bin(OpSub, ts.Const(x.w, 0), x)
}

func (ts *TermStore) And(x, y *Term) *Term {
	if x.IsFalse() || y.IsFalse() {
		return ts.Fals
	}
	if x.IsTrue() {
		return y
	}
	if y.IsTrue() {
		return x
	}
	if x == y {
		return x
	}
	return ts.mk(termKey{op: OpBAnd, w: 0, a: x, b: y}, nil)
}

func (ts *TermStore) Or(x, y *Term) *Term {
	if x.IsTrue() || y.IsTrue() {
		return ts.True
	}
	if x.IsFalse() {
		return y
	}
	if y.IsFalse() {
		return x
	}
	if x == y {
		return x
	}
	return ts.mk(termKey{op: OpBOr, w: 0, a: x, b: y}, nil)
}

func (ts *TermStore) Ite(c, x, y *Term) *Term {
	if c.IsTrue() {
		return x
	}
	if c.IsFalse() {
		return y
	}
	if x == y {
		return x
	}
	if x.w != y.w {
		panic("Ite width mismatch")
	}
	if x.w == 0 {
		if x.IsTrue() && y.IsFalse() {
			return c
		}
		if x.IsFalse() && y.IsTrue() {
			return ts.Not(c)
		}
	}
	return ts.mk(termKey{op: OpIte, w: x.w, a: c, b: x, c: y}, nil)
}

func (ts *TermStore) Extract(x *Term, hi, lo uint16) *Term {
	if hi < lo || hi >= x.w {
		panic(fmt.Sprintf("Extract [%d:%d] of width %d", hi, lo, x.w))
	}
	w := hi - lo + 1
	if w == x.w {
		return x
	}
	if x.IsConst() {
		if x.w <= 64 {
			return ts.Const(w, x.k>>lo)
		}
		return ts.ConstBig(w, new(big.Int).Rsh(x.big, uint(lo)))
	}
	switch x.op {
	case OpZExt, OpSExt:
		inw := x.a.w
		if hi < inw {
			return ts.Extract(x.a, hi, lo)
		}
		if x.op == OpZExt && lo >= inw {
			return ts.Const(w, 0)
		}
	case OpConcat:
		bw := x.b.w
		if hi < bw {
			return ts.Extract(x.b, hi, lo)
		}
		if lo >= bw {
			return ts.Extract(x.a, hi-bw, lo-bw)
		}
	case OpExtract:
		ilo := uint16(x.k & 0xffff)
		return ts.Extract(x.a, hi+ilo, lo+ilo)
	case OpOr, OpAnd, OpXor:
		// distribute when it removes a constant-shift structure (big-endian read then byte extract)
		if w <= 16 {
			a := ts.Extract(x.a, hi, lo)
			b := ts.Extract(x.b, hi, lo)
			if a.IsConst() || b.IsConst() || simpleLeaf(a) || simpleLeaf(b) {
				return ts.Bin(x.op, a, b)
			}
		}
	case OpShl:
		if x.b.IsConst() && x.w <= 64 {
			s := uint16(x.b.k)
			if uint64(s) == x.b.k {
				if hi < s {
					return ts.Const(w, 0)
				}
				if lo >= s {
					return ts.Extract(x.a, hi-s, lo-s)
				}
			}
		}
	case OpLShr:
		if x.b.IsConst() && x.w <= 64 {
			s := x.b.k
			if s < uint64(x.w) {
				s16 := uint16(s)
				if uint32(hi)+uint32(s16) < uint32(x.w) {
					return ts.Extract(x.a, hi+s16, lo+s16)
				}
				if uint32(lo)+uint32(s16) >= uint32(x.w) {
					return ts.Const(w, 0)
				}
			}
		}
	}
	return ts.mk(termKey{op: OpExtract, w: w, a: x, k: uint64(hi)<<16 | uint64(lo)}, nil)
}

func simpleLeaf(t *Term) bool {
	return t.op == OpVar || t.op == OpConst || (t.op == OpExtract && t.a.op == OpVar)
}

func (ts *TermStore) ZExt(x *Term, w uint16) *Term {
	if w == x.w {
		return x
	}
	if w < x.w {
		panic("ZExt narrowing")
	}
	if x.IsConst() {
		if x.w <= 64 {
			return ts.Const(w, x.k)
		}
		return ts.ConstBig(w, x.big)
	}
	if x.op == OpZExt {
		return ts.ZExt(x.a, w)
	}
	return ts.mk(termKey{op: OpZExt, w: w, a: x}, nil)
}

func (ts *TermStore) SExt(x *Term, w uint16) *Term {
	if w == x.w {
		return x
	}
	if w < x.w {
		panic("SExt narrowing")
	}
	if x.IsConst() {
		if w <= 64 {
			return ts.Const(w, uint64(sext64(x.k, x.w)))
		}
		if x.w <= 64 {
			v := big.NewInt(sext64(x.k, x.w))
			if v.Sign() < 0 {
				v.Add(v, new(big.Int).Lsh(big.NewInt(1), uint(w)))
			}
			return ts.ConstBig(w, v)
		}
		v := bigSigned(x.big, x.w)
		if v.Sign() < 0 {
			v = new(big.Int).Add(v, new(big.Int).Lsh(big.NewInt(1), uint(w)))
		}
		return ts.ConstBig(w, v)
	}
	if x.op == OpZExt && x.a.w < x.w {
		return ts.ZExt(x.a, w)
	}
	return ts.mk(termKey{op: OpSExt, w: w, a: x}, nil)
}

func (ts *TermStore) Concat(hi, lo *Term) *Term {
	w := hi.w + lo.w
	if hi.IsConst() && lo.IsConst() {
		if w <= 64 {
			return ts.Const(w, hi.k<<lo.w|lo.k)
		}
		v := new(big.Int).Lsh(hi.Big(), uint(lo.w))
		v.Or(v, lo.Big())
		return ts.ConstBig(w, v)
	}
	if hi.IsConst() && ((hi.w <= 64 && hi.k == 0) || (hi.w > 64 && hi.big.Sign() == 0)) {
		return ts.ZExt(lo, w)
	}
	// adjacent extracts of the same term
	if hi.op == OpExtract && lo.op == OpExtract && hi.a == lo.a {
		hlo := uint16(hi.k & 0xffff)
		lhi := uint16(lo.k >> 16)
		if hlo == lhi+1 {
			return ts.Extract(hi.a, uint16(hi.k>>16), uint16(lo.k&0xffff))
		}
	}
	return ts.mk(termKey{op: OpConcat, w: w, a: hi, b: lo}, nil)
}

// Resize converts to width w, sign- or zero-extending by signedness of the source.
func (ts *TermStore) Resize(x *Term, w uint16, signed bool) *Term {
	if w == x.w {
		return x
	}
	if w < x.w {
		return ts.Extract(x, w-1, 0)
	}
	if signed {
		return ts.SExt(x, w)
	}
	return ts.ZExt(x, w)
}

// ---- evaluation under an assignment ----

type Model map[string]*big.Int // variable name -> value; missing = 0 / false

type evalCache map[*Term]*big.Int

var bigZero = big.NewInt(0)
var bigOne = big.NewInt(1)

func (t *Term) Eval(m Model, cache evalCache) *big.Int {
	if t.op == OpConst {
		if t.w > 64 {
			return t.big
		}
		return new(big.Int).SetUint64(t.k)
	}
	if v, ok := cache[t]; ok {
		return v
	}
	var r *big.Int
	switch t.op {
	case OpVar:
		if v, ok := m[t.name]; ok {
			r = v
		} else {
			r = bigZero
		}
	case OpNot:
		x := t.a.Eval(m, cache)
		if t.w == 0 {
			if x.Sign() == 0 {
				r = bigOne
			} else {
				r = bigZero
			}
		} else {
			r = new(big.Int).Xor(x, bigMask(t.w))
		}
	case OpBAnd:
		if t.a.Eval(m, cache).Sign() != 0 && t.b.Eval(m, cache).Sign() != 0 {
			r = bigOne
		} else {
			r = bigZero
		}
	case OpBOr:
		if t.a.Eval(m, cache).Sign() != 0 || t.b.Eval(m, cache).Sign() != 0 {
			r = bigOne
		} else {
			r = bigZero
		}
	case OpIte:
		if t.a.Eval(m, cache).Sign() != 0 {
			r = t.b.Eval(m, cache)
		} else {
			r = t.c.Eval(m, cache)
		}
	case OpEq, OpUlt, OpUle, OpSlt, OpSle:
		x, y := t.a.Eval(m, cache), t.b.Eval(m, cache)
		var b bool
		if t.a.w <= 64 {
			b = foldCmp64(t.op, t.a.w, x.Uint64(), y.Uint64())
		} else {
			switch t.op {
			case OpEq:
				b = x.Cmp(y) == 0
			case OpUlt:
				b = x.Cmp(y) < 0
			case OpUle:
				b = x.Cmp(y) <= 0
			case OpSlt:
				b = bigSigned(x, t.a.w).Cmp(bigSigned(y, t.a.w)) < 0
			case OpSle:
				b = bigSigned(x, t.a.w).Cmp(bigSigned(y, t.a.w)) <= 0
			}
		}
		if b {
			r = bigOne
		} else {
			r = bigZero
		}
	case OpExtract:
		x := t.a.Eval(m, cache)
		lo := uint(t.k & 0xffff)
		r = new(big.Int).Rsh(x, lo)
		r.And(r, bigMask(t.w))
	case OpZExt:
		r = t.a.Eval(m, cache)
	case OpSExt:
		x := t.a.Eval(m, cache)
		s := bigSigned(x, t.a.w)
		if s.Sign() < 0 {
			r = new(big.Int).Add(s, new(big.Int).Lsh(big.NewInt(1), uint(t.w)))
		} else {
			r = x
		}
	case OpConcat:
		r = new(big.Int).Lsh(t.a.Eval(m, cache), uint(t.b.w))
		r.Or(r, t.b.Eval(m, cache))
	case OpNeg:
		x := t.a.Eval(m, cache)
		r = new(big.Int).Sub(new(big.Int).Lsh(big.NewInt(1), uint(t.w)), x)
		r.And(r, bigMask(t.w))
	default:
		x, y := t.a.Eval(m, cache), t.b.Eval(m, cache)
		if t.w <= 64 {
			v, ok := foldBin64(t.op, t.w, x.Uint64(), y.Uint64())
			if !ok {
				panic(fmt.Sprintf("Eval: op %d", t.op))
			}
			r = new(big.Int).SetUint64(v)
		} else {
			r = foldBinBig(t.op, t.w, x, y)
		}
	}
	cache[t] = r
	return r
}

// ---- SMT-LIB printing ----

func smtSort(w uint16) string {
	if w == 0 {
		return "Bool"
	}
	return fmt.Sprintf("(_ BitVec %d)", w)
}

func smtConst(t *Term) string {
	if t.w == 0 {
		if t.k != 0 {
			return "true"
		}
		return "false"
	}
	if t.w%4 == 0 {
		if t.w <= 64 {
			return fmt.Sprintf("#x%0*x", int(t.w/4), t.k)
		}
		return fmt.Sprintf("#x%0*s", int(t.w/4), t.big.Text(16))
	}
	if t.w <= 64 {
		return fmt.Sprintf("#b%0*b", int(t.w), t.k)
	}
	return fmt.Sprintf("#b%0*s", int(t.w), t.big.Text(2))
}

func smtVarName(name string) string {
	return "|" + strings.NewReplacer("|", "_", "\\", "_").Replace(name) + "|"
}

// smtRef is the name by which a term is referenced in emitted SMT (after definition).
func smtRef(t *Term) string {
	switch t.op {
	case OpConst:
		return smtConst(t)
	case OpVar:
		return smtVarName(t.name)
	}
	return fmt.Sprintf("t%d", t.id)
}

// smtBody prints a term's defining expression in terms of its children's references.
func smtBody(t *Term) string {
	switch t.op {
	case OpNot:
		if t.w == 0 {
			return "(not " + smtRef(t.a) + ")"
		}
		return "(bvnot " + smtRef(t.a) + ")"
	case OpNeg:
		return "(bvneg " + smtRef(t.a) + ")"
	case OpExtract:
		return fmt.Sprintf("((_ extract %d %d) %s)", t.k>>16, t.k&0xffff, smtRef(t.a))
	case OpZExt:
		return fmt.Sprintf("((_ zero_extend %d) %s)", t.w-t.a.w, smtRef(t.a))
	case OpSExt:
		return fmt.Sprintf("((_ sign_extend %d) %s)", t.w-t.a.w, smtRef(t.a))
	case OpIte:
		return "(ite " + smtRef(t.a) + " " + smtRef(t.b) + " " + smtRef(t.c) + ")"
	}
	n, ok := opNames[t.op]
	if !ok {
		panic(fmt.Sprintf("smtBody: op %d", t.op))
	}
	return "(" + n + " " + smtRef(t.a) + " " + smtRef(t.b) + ")"
}

// String renders a term fully (debugging / samples); large terms are truncated.
func (t *Term) String() string {
	var sb strings.Builder
	t.str(&sb, 0)
	return sb.String()
}

func (t *Term) str(sb *strings.Builder, depth int) {
	if sb.Len() > 400 {
		sb.WriteString("…")
		return
	}
	switch t.op {
	case OpConst:
		if t.w == 0 {
			sb.WriteString(smtConst(t))
		} else if t.w <= 64 {
			fmt.Fprintf(sb, "%d:%d", t.k, t.w)
		} else {
			fmt.Fprintf(sb, "0x%s:%d", t.big.Text(16), t.w)
		}
		return
	case OpVar:
		sb.WriteString(t.name)
		return
	case OpExtract:
		fmt.Fprintf(sb, "(extract %d %d ", t.k>>16, t.k&0xffff)
		t.a.str(sb, depth+1)
		sb.WriteString(")")
		return
	case OpZExt:
		fmt.Fprintf(sb, "(zext%d ", t.w)
		t.a.str(sb, depth+1)
		sb.WriteString(")")
		return
	case OpSExt:
		fmt.Fprintf(sb, "(sext%d ", t.w)
		t.a.str(sb, depth+1)
		sb.WriteString(")")
		return
	case OpNot:
		sb.WriteString("(not ")
		t.a.str(sb, depth+1)
		sb.WriteString(")")
		return
	case OpNeg:
		sb.WriteString("(neg ")
		t.a.str(sb, depth+1)
		sb.WriteString(")")
		return
	}
	sb.WriteString("(" + opNames[t.op])
	for _, x := range []*Term{t.a, t.b, t.c} {
		if x != nil {
			sb.WriteString(" ")
			x.str(sb, depth+1)
		}
	}
	sb.WriteString(")")
}

func popcount(x uint64) int { return bits.OnesCount64(x) }
