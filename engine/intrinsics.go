package main

// Intercepted functions: the harness runtime (verifrt) and the environment stubs (DESIGN §2.6).

import (
	"fmt"
	"go/types"
	"sort"
	"strings"

	"golang.org/x/tools/go/ssa"
)

type intrinsic func(ex *Exec, fn *ssa.Function, args []Value) (Value, *Panic)

var intrinsics map[string]intrinsic

const rtPkg = libPrefix + "/verifrt"

func init() {
	intrinsics = map[string]intrinsic{
		rtPkg + ".U8":           rtScalar(8),
		rtPkg + ".U16":          rtScalar(16),
		rtPkg + ".U32":          rtScalar(32),
		rtPkg + ".U64":          rtScalar(64),
		rtPkg + ".Int":          rtScalar(64),
		rtPkg + ".Bool":         rtScalar(0),
		rtPkg + ".IntRange":     rtIntRange,
		rtPkg + ".Choice":       rtChoice,
		rtPkg + ".Bytes":        rtBytes,
		rtPkg + ".Assume":       rtAssume,
		rtPkg + ".Assert":       rtAssert,
		rtPkg + ".Tag":          rtTag,
		rtPkg + ".Note":         rtNote,
		rtPkg + ".Threads":      rtThreads,
		rtPkg + ".ThreadsIdx":   rtThreads,
		rtPkg + ".AssertStatic": rtAssertStatic,
		rtPkg + ".Havoc":        rtHavoc,
		rtPkg + ".NoAlias":      rtNoAlias,
		rtPkg + ".Observe":      rtObserve,
		rtPkg + ".BytesEq":      rtBytesEq,
		rtPkg + ".And":          rtBoolOp(OpBAnd),
		rtPkg + ".Or":           rtBoolOp(OpBOr),
		rtPkg + ".Implies":      rtImplies,
		rtPkg + ".LoopBound":    rtLoopBound,
		rtPkg + ".AllocLimit":   rtAllocLimit,
		rtPkg + ".FatalIsViolation": func(ex *Exec, fn *ssa.Function, args []Value) (Value, *Panic) {
			ex.fatalIsFinding = args[0].(*Term).IsTrue()
			return nil, nil
		},
		rtPkg + ".WorkLimit": func(ex *Exec, fn *ssa.Function, args []Value) (Value, *Panic) {
			ex.workLimit = args[0].(*Term).Int()
			ex.workBase = ex.instrs
			return nil, nil
		},
		rtPkg + ".DeepEq":        rtDeepEq,
		rtPkg + ".MonitorShared": rtMonitorShared,
		rtPkg + ".Ownership":     rtOwnership,
		rtPkg + ".Symbolic": func(ex *Exec, fn *ssa.Function, a []Value) (Value, *Panic) {
			return ex.ts.Bool(ex.concrete == nil), nil
		},
		rtPkg + ".ConcreteInputs": func(ex *Exec, fn *ssa.Function, a []Value) (Value, *Panic) {
			ex.concreteInputs = a[0].(*Term).IsTrue()
			return nil, nil
		},
		rtPkg + ".Thorough": func(ex *Exec, fn *ssa.Function, a []Value) (Value, *Panic) {
			return ex.ts.Bool(ex.cfg.Tier == "thorough"), nil
		},
		rtPkg + ".Ite8":   rtIte,
		rtPkg + ".Ite16":  rtIte,
		rtPkg + ".Ite32":  rtIte,
		rtPkg + ".Ite64":  rtIte,
		rtPkg + ".IteInt": rtIte,

		"fmt.Errorf":  stubErrorf,
		"fmt.Sprintf": stubSprintf,
		"fmt.Sprint":  stubSprint,
		"fmt.Println": stubNoop,
		"fmt.Printf":  stubNoop,

		"strings.ToUpper":  stubStr1(strings.ToUpper),
		"strings.ToLower":  stubStr1(strings.ToLower),
		"strings.Contains": stubContains,

		"log.Printf":  stubNoop,
		"log.Println": stubNoop,
		"log.Print":   stubNoop,
		"log.Panicf":  stubLogPanic,
		"log.Fatalf":  stubFatal,

		"math/rand.Uint32": func(ex *Exec, fn *ssa.Function, a []Value) (Value, *Panic) {
			ex.stubsUsed["math/rand.Uint32 = arbitrary uint32"] = true
			return ex.input(ex.freshName("rand.Uint32"), 32), nil
		},
		"time.Now": func(ex *Exec, fn *ssa.Function, a []Value) (Value, *Panic) {
			// a fixed instant that is not the zero Time (so IsZero is false, as for any real clock
			// reading); deadlines derived from it are only ever compared with the zero Time
			ex.stubsUsed["time.Now = one fixed non-zero instant"] = true
			v := ex.zero(fn.Signature.Results().At(0).Type(), nil)
			if sv, ok := v.(*StructV); ok && len(sv.f) == 3 {
				if t, ok := sv.f[1].(*Term); ok {
					sv.f[1] = ex.ts.Const(t.w, 1<<40)
				}
			}
			return v, nil
		},
		"(time.Time).Add": func(ex *Exec, fn *ssa.Function, a []Value) (Value, *Panic) {
			return a[0], nil
		},
		"sync/atomic.AddUint32": stubAtomicAdd32,
		"sync/atomic.LoadUint32": func(ex *Exec, fn *ssa.Function, a []Value) (Value, *Panic) {
			p := a[0].(*Ptr)
			if p.IsNil() {
				return nil, ex.runtimePanic("nil", "nil pointer in atomic.LoadUint32")
			}
			if w, ok := ex.sharedScalar(p); ok {
				return ex.recordAccess("load", p, w, nil, true), nil
			}
			return p.base.get(p.idx), nil
		},
		"sync/atomic.StoreUint32": func(ex *Exec, fn *ssa.Function, a []Value) (Value, *Panic) {
			p := a[0].(*Ptr)
			if p.IsNil() {
				return nil, ex.runtimePanic("nil", "nil pointer in atomic.StoreUint32")
			}
			if w, ok := ex.sharedScalar(p); ok {
				ex.recordAccess("store", p, w, a[1].(*Term), true)
				return nil, nil
			}
			p.base.set(p.idx, a[1]) // sanctioned writer
			return nil, nil
		},
		"(*sync.Pool).Get":      stubPoolGet,
		"(*sync.Pool).Put":      stubPoolPut,
		"bytes.Repeat":          stubBytesRepeat,
		"bytes.Equal":           stubBytesEqual,
		"net.IPv4":              stubNetIPv4,
		"encoding/binary.Read":  stubBinaryRead,
		"encoding/binary.Write": stubBinaryWrite,
	}
	registerBigIntrinsics()
	registerReflectIntrinsics()
}

func (ex *Exec) lookupIntrinsic(fn *ssa.Function) intrinsic {
	name := fn.String()
	if fn.Origin() != nil {
		name = fn.Origin().String()
	}
	if in, ok := intrinsics[name]; ok {
		return in
	}
	if fn.Pkg != nil {
		path := fn.Pkg.Pkg.Path()
		if path == "github.com/sirupsen/logrus" {
			switch fn.Name() {
			case "Fatalf", "Fatal", "Fatalln":
				return stubFatal
			case "Panicf", "Panic", "Panicln":
				return stubLogPanic
			}
			ex.stubsUsed["logrus.* = no-op"] = true
			return stubNoop
		}
	}
	return nil
}

var externGlobals = map[string]func(ex *Exec, p *ssa.Package){
	"net": func(ex *Exec, p *ssa.Package) {
		// net.v4InV6Prefix is the only package-level datum the IP helpers read
		if g, ok := p.Members["v4InV6Prefix"].(*ssa.Global); ok {
			saved := ex.inInit
			ex.inInit = true
			ptr := ex.alloc(g.Type().(*types.Pointer).Elem(), "global net.v4InV6Prefix")
			ptr.base.(*Obj).shared = true
			elem := types.Typ[types.Byte]
			arr := ex.newArray(elem, 12, "net.v4InV6Prefix")
			arr.e[10] = ex.ts.Const(8, 0xff)
			arr.e[11] = ex.ts.Const(8, 0xff)
			arr.own.shared = true
			ptr.base.set(0, &SliceV{arr: arr, off: 0, len: 12, cap: 12})
			ex.globals[g] = ptr
			ex.inInit = saved
		}
	},
}

func stubNoop(ex *Exec, fn *ssa.Function, args []Value) (Value, *Panic) {
	return ex.zeroResults(fn), nil
}

func stubFatal(ex *Exec, fn *ssa.Function, args []Value) (Value, *Panic) {
	if ex.fatalIsFinding {
		ex.reportSite("fatal", "exit", "log.Fatal reached: the library ends the process")
	}
	ex.observes = append(ex.observes, "process-exit")
	ex.endPath("process-exit (log.Fatal)")
	return nil, nil
}

func stubLogPanic(ex *Exec, fn *ssa.Function, args []Value) (Value, *Panic) {
	msg := "log.Panicf"
	if s, ok := args[0].(StrV); ok {
		msg = string(s)
	}
	return nil, ex.explicitPanic(&IfaceV{t: types.Typ[types.String], v: StrV(msg)})
}

// ---- verifrt ----

func argStr(v Value) string {
	s, _ := v.(StrV)
	return string(s)
}

func rtScalar(w uint16) intrinsic {
	return func(ex *Exec, fn *ssa.Function, args []Value) (Value, *Panic) {
		name := ex.freshName(argStr(args[0]))
		if ex.concreteInputs {
			if w == 0 {
				return ex.ts.Fals, nil
			}
			return ex.ts.Const(w, 0xa5a5a5a5a5a5a5a5), nil
		}
		return ex.input(name, w), nil
	}
}

func (ex *Exec) recordChoice(name string, v uint64) {
	if ex.choiceVals == nil {
		ex.choiceVals = map[string]uint64{}
	}
	ex.choiceVals[name] = v
}

func rtIntRange(ex *Exec, fn *ssa.Function, args []Value) (Value, *Panic) {
	name := ex.freshName(argStr(args[0]))
	lo := args[1].(*Term).Int()
	hi := args[2].(*Term).Int()
	if hi < lo {
		ex.endPath("empty range")
	}
	var i int
	if ex.concrete != nil {
		// replay values are the range values themselves (as the native runtime reads them)
		if v, ok := ex.concrete[name]; ok {
			i = int(v.Int64() - lo)
			if i < 0 || int64(i) > hi-lo {
				ex.endPath("replay value outside IntRange")
			}
		}
	} else {
		i = ex.choose(int(hi-lo+1), name)
	}
	ex.recordChoice(name, uint64(lo+int64(i)))
	return ex.ts.Const(64, uint64(lo+int64(i))), nil
}

func rtChoice(ex *Exec, fn *ssa.Function, args []Value) (Value, *Panic) {
	name := ex.freshName(argStr(args[0]))
	n := int(args[1].(*Term).Int())
	i := ex.choose(n, name)
	ex.recordChoice(name, uint64(i))
	return ex.ts.Const(64, uint64(i)), nil
}

func rtBytes(ex *Exec, fn *ssa.Function, args []Value) (Value, *Panic) {
	name := ex.freshName(argStr(args[0]))
	nt := args[1].(*Term)
	if !nt.IsConst() {
		panic(ex.unsupported("verifrt.Bytes with symbolic length (use IntRange)"))
	}
	n := int(nt.Int())
	arr := ex.newArray(types.Typ[types.Byte], n, "verifrt.Bytes "+name)
	for i := 0; i < n; i++ {
		if ex.concreteInputs {
			arr.e[i] = ex.ts.Const(8, 0xa5)
		} else {
			arr.e[i] = ex.input(fmt.Sprintf("%s[%d]", name, i), 8)
		}
	}
	return &SliceV{arr: arr, off: 0, len: n, cap: n}, nil
}

func rtAssume(ex *Exec, fn *ssa.Function, args []Value) (Value, *Panic) {
	ex.assume(args[0].(*Term))
	return nil, nil
}

func rtAssert(ex *Exec, fn *ssa.Function, args []Value) (Value, *Panic) {
	ex.mustHold(args[0].(*Term), argStr(args[1]))
	return nil, nil
}

func rtTag(ex *Exec, fn *ssa.Function, args []Value) (Value, *Panic) {
	ex.tags[argStr(args[0])] = argStr(args[1])
	return nil, nil
}

// rtAssertStatic counts a structural pattern in the SSA of the harness's package (library
// functions only) and reports a finding if the count differs from the expected one.
func rtAssertStatic(ex *Exec, fn *ssa.Function, args []Value) (Value, *Panic) {
	kind, where, what := argStr(args[0]), argStr(args[1]), argStr(args[2])
	expected := int(args[3].(*Term).Int())
	label := argStr(args[4])
	ex.reach[label]++
	pkg := ex.W.pkgs[ex.harness.Pkg]
	count := 0
	var sites []string
	fieldName := func(v ssa.Value) string {
		if u, ok := v.(*ssa.UnOp); ok {
			v = u.X
		}
		switch fa := v.(type) {
		case *ssa.FieldAddr:
			if st, ok := fa.X.Type().Underlying().(*types.Pointer).Elem().Underlying().(*types.Struct); ok {
				return st.Field(fa.Field).Name()
			}
		case *ssa.Field:
			if st, ok := fa.X.Type().Underlying().(*types.Struct); ok {
				return st.Field(fa.Field).Name()
			}
		}
		return ""
	}
	visit := func(f *ssa.Function) {
		if !ex.W.isLibFunc(f) || (where != "" && f.Name() != where) {
			return
		}
		for _, b := range f.Blocks {
			for _, in := range b.Instrs {
				hit := false
				switch kind {
				case "go":
					if g, ok := in.(*ssa.Go); ok {
						if c := g.Call.StaticCallee(); c != nil && strings.Contains(c.Name(), what) {
							hit = true
							if blockInCycle(b) {
								count++ // a go statement inside a loop starts more than one goroutine
								sites = append(sites, f.Name()+" (in a loop)")
							}
						}
					}
				case "invoke":
					if c, ok := in.(ssa.CallInstruction); ok && c.Common().IsInvoke() && c.Common().Method.Name() == what {
						hit = true
					}
				case "send":
					if sd, ok := in.(*ssa.Send); ok && fieldName(sd.Chan) == what {
						hit = true
					}
					if sl, ok := in.(*ssa.Select); ok {
						for _, st := range sl.States {
							if st.Dir == types.SendOnly && fieldName(st.Chan) == what {
								hit = true
							}
						}
					}
				}
				if hit {
					count++
					sites = append(sites, f.Name()+" @ "+ex.W.posString(in.Pos()))
				}
			}
		}
	}
	for _, m := range pkg.Members {
		switch x := m.(type) {
		case *ssa.Function:
			visit(x)
			for _, an := range x.AnonFuncs {
				visit(an)
			}
		case *ssa.Type:
			for _, t := range []types.Type{x.Type(), types.NewPointer(x.Type())} {
				ms := ex.W.prog.MethodSets.MethodSet(t)
				for i := 0; i < ms.Len(); i++ {
					if f := ex.W.prog.MethodValue(ms.At(i)); f != nil && f.Synthetic == "" {
						visit(f)
						for _, an := range f.AnonFuncs {
							visit(an)
						}
					}
				}
			}
		}
	}
	if count != expected && !ex.replaying() && ex.concrete == nil {
		f := &Finding{Kind: "static", Label: label, Fault: "count", Func: where, Src: kind + " " + what, Tags: copyTags(ex.tags),
			Msg: fmt.Sprintf("expected %d, found %d: %s", expected, count, strings.Join(sites, "; "))}
		ex.report(f, nil)
	}
	return nil, nil
}

// blockInCycle reports whether control can return to b (the block lies on a loop).
func blockInCycle(b *ssa.BasicBlock) bool {
	seen := map[*ssa.BasicBlock]bool{}
	var stack []*ssa.BasicBlock
	stack = append(stack, b.Succs...)
	for len(stack) > 0 {
		x := stack[len(stack)-1]
		stack = stack[:len(stack)-1]
		if x == b {
			return true
		}
		if seen[x] {
			continue
		}
		seen[x] = true
		stack = append(stack, x.Succs...)
	}
	return false
}

func rtNote(ex *Exec, fn *ssa.Function, args []Value) (Value, *Panic) {
	if ex.notes == nil {
		ex.notes = map[string]string{}
	}
	ex.notes[argStr(args[0])] = argStr(args[1])
	return nil, nil
}

func rtHavoc(ex *Exec, fn *ssa.Function, args []Value) (Value, *Panic) {
	s := args[0].(*SliceV)
	name := ex.freshName("havoc")
	for i := 0; i < s.cap; i++ {
		s.arr.e[s.off+i] = ex.input(fmt.Sprintf("%s[%d]", name, i), 8)
	}
	return nil, nil
}

func rtBytesEq(ex *Exec, fn *ssa.Function, args []Value) (Value, *Panic) {
	a, b := args[0].(*SliceV), args[1].(*SliceV)
	if a.len != b.len {
		return ex.ts.Fals, nil
	}
	r := ex.ts.True
	for i := 0; i < a.len; i++ {
		r = ex.ts.And(r, ex.ts.Cmp(OpEq, a.arr.e[a.off+i].(*Term), b.arr.e[b.off+i].(*Term)))
	}
	return r, nil
}

func rtBoolOp(op Op) intrinsic {
	return func(ex *Exec, fn *ssa.Function, args []Value) (Value, *Panic) {
		if op == OpBAnd {
			return ex.ts.And(args[0].(*Term), args[1].(*Term)), nil
		}
		return ex.ts.Or(args[0].(*Term), args[1].(*Term)), nil
	}
}

func rtImplies(ex *Exec, fn *ssa.Function, args []Value) (Value, *Panic) {
	return ex.ts.Or(ex.ts.Not(args[0].(*Term)), args[1].(*Term)), nil
}

func rtIte(ex *Exec, fn *ssa.Function, args []Value) (Value, *Panic) {
	return ex.ts.Ite(args[0].(*Term), args[1].(*Term), args[2].(*Term)), nil
}

func rtLoopBound(ex *Exec, fn *ssa.Function, args []Value) (Value, *Panic) {
	ex.loopBound = int(args[0].(*Term).Int())
	return nil, nil
}

func rtAllocLimit(ex *Exec, fn *ssa.Function, args []Value) (Value, *Panic) {
	ex.allocLimit = int(args[0].(*Term).Int())
	ex.allocTotal = 0
	return nil, nil
}

func rtMonitorShared(ex *Exec, fn *ssa.Function, args []Value) (Value, *Panic) {
	ex.monitorShared = args[0].(*Term).IsTrue()
	return nil, nil
}

func rtOwnership(ex *Exec, fn *ssa.Function, args []Value) (Value, *Panic) {
	ex.cfg.Ownership = args[0].(*Term).IsTrue()
	return nil, nil
}

// reachable collects the memory objects reachable from v.
func reachable(v Value, seen map[*Obj]bool, seenC map[Container]bool) {
	switch x := v.(type) {
	case *Ptr:
		if x.IsNil() {
			return
		}
		if o := x.base.owner(); o != nil {
			if !seen[o] {
				seen[o] = true
				reachable(o.slot, seen, seenC)
			}
		} else if !seenC[x.base] {
			seenC[x.base] = true
			reachable(x.base.get(x.idx), seen, seenC)
		}
	case *StructV:
		for _, f := range x.f {
			reachable(f, seen, seenC)
		}
	case *ArrayV:
		if len(x.e) > 0 {
			if _, ok := x.e[0].(*Term); ok {
				return
			}
		}
		for _, f := range x.e {
			reachable(f, seen, seenC)
		}
	case *SliceV:
		if x.arr != nil && x.len > 0 { // an empty slice exposes no byte of its array
			if o := x.arr.own; o != nil {
				if !seen[o] {
					seen[o] = true
					reachable(x.arr, seen, seenC)
				}
			}
		}
	case *IfaceV:
		if x.t != nil {
			reachable(x.v, seen, seenC)
		}
	case *MapV:
		if x.m != nil && !seen[x.m.own] {
			seen[x.m.own] = true
			for _, e := range x.m.entries {
				reachable(e.k, seen, seenC)
				reachable(e.v, seen, seenC)
			}
		}
	case *FuncV:
		for _, b := range x.bind {
			reachable(b, seen, seenC)
		}
	case *OpaqueV:
		if bv, ok := x.x.(*bigVal); ok {
			_ = bv
		}
	}
}

func rtNoAlias(ex *Exec, fn *ssa.Function, args []Value) (Value, *Panic) {
	label := argStr(args[2])
	ex.reach[label]++
	sa, sb := map[*Obj]bool{}, map[*Obj]bool{}
	reachable(args[0], sa, map[Container]bool{})
	reachable(args[1], sb, map[Container]bool{})
	var common []string
	for o := range sa {
		if sb[o] && !o.shared {
			common = append(common, fmt.Sprintf("%s (%s)", o.site, o.typ))
		}
	}
	if len(common) > 0 {
		sort.Strings(common)
		f := &Finding{Kind: "assert", Label: label, Tags: copyTags(ex.tags), Msg: "shared memory: " + strings.Join(common, "; ")}
		var m Model
		if ex.concrete == nil {
			m = ex.model
		} else {
			ex.observes = append(ex.observes, "assert-fail:"+label)
			ex.endPath("assert-fail")
		}
		if !ex.replaying() {
			ex.report(f, m)
		}
	}
	return nil, nil
}

func rtObserve(ex *Exec, fn *ssa.Function, args []Value) (Value, *Panic) {
	if ex.concrete == nil {
		return nil, nil
	}
	ex.observes = append(ex.observes, argStr(args[0])+"="+ex.render(args[1], 0))
	return nil, nil
}

// render produces the canonical text of a concrete value (mirrors verifrt.render natively).
func (ex *Exec) render(v Value, depth int) string {
	if depth > 6 {
		return "..."
	}
	switch x := v.(type) {
	case nil:
		return "nil"
	case *Term:
		if !x.IsConst() {
			return "<sym>"
		}
		if x.w == 0 {
			if x.k != 0 {
				return "true"
			}
			return "false"
		}
		return fmt.Sprintf("%d", x.k)
	case StrV:
		return fmt.Sprintf("%q", string(x))
	case *SliceV:
		if x.len > 0 {
			if _, ok := x.arr.e[x.off].(*Term); ok && x.arr.e[x.off].(*Term).w == 8 {
				var sb strings.Builder
				sb.WriteString("x")
				for i := 0; i < x.len; i++ {
					t := x.arr.e[x.off+i].(*Term)
					if !t.IsConst() {
						sb.WriteString("??")
					} else {
						fmt.Fprintf(&sb, "%02x", t.k)
					}
				}
				return sb.String()
			}
		}
		var parts []string
		for i := 0; i < x.len; i++ {
			parts = append(parts, ex.render(x.arr.e[x.off+i], depth+1))
		}
		if len(parts) == 0 {
			return "x"
		}
		return "[" + strings.Join(parts, ",") + "]"
	case *IfaceV:
		if x.t == nil {
			return "nil"
		}
		if ex.implements(x.t, errorIface) {
			return "error"
		}
		return ex.render(x.v, depth)
	case *Ptr:
		if x.IsNil() {
			return "nil"
		}
		return "&" + ex.render(x.base.get(x.idx), depth+1)
	case *StructV:
		var parts []string
		for _, f := range x.f {
			parts = append(parts, ex.render(f, depth+1))
		}
		return "{" + strings.Join(parts, ",") + "}"
	case *ArrayV:
		sl := &SliceV{arr: x, off: 0, len: len(x.e), cap: len(x.e)}
		return ex.render(sl, depth)
	}
	return fmt.Sprintf("<%T>", v)
}

var errorIface = types.Universe.Lookup("error").Type()

// ---- fmt / strings / errors ----

func (ex *Exec) goArgs(variadic Value) []interface{} {
	var out []interface{}
	s, ok := variadic.(*SliceV)
	if !ok {
		return nil
	}
	for i := 0; i < s.len; i++ {
		out = append(out, ex.goValue(s.arr.e[s.off+i]))
	}
	return out
}

type symPlaceholder struct{}

func (symPlaceholder) String() string { return "<sym>" }

func (ex *Exec) goValue(v Value) interface{} {
	switch x := v.(type) {
	case *IfaceV:
		if x.t == nil {
			return nil
		}
		if t, ok := x.v.(*Term); ok && t.IsConst() {
			w, signed, _ := intWidth(x.t)
			if w == 0 {
				return t.k != 0
			}
			if signed {
				return t.Int()
			}
			return t.k
		}
		return ex.goValue(x.v)
	case *Term:
		if x.IsConst() {
			return x.k
		}
		return symPlaceholder{}
	case StrV:
		return string(x)
	case *SliceV:
		var bs []interface{}
		for i := 0; i < x.len; i++ {
			bs = append(bs, ex.goValue(x.arr.e[x.off+i]))
		}
		return bs
	}
	return symPlaceholder{}
}

func (ex *Exec) makeError(msg string) Value {
	// *errors.errorString{s}
	ep := ex.W.pkgs["errors"]
	if ep == nil {
		panic(ex.unsupported("errors package not loaded"))
	}
	es := ep.Members["errorString"].Type()
	p := ex.alloc(es, "error")
	p.base.get(0).(*StructV).f[0] = StrV(msg)
	return &IfaceV{t: types.NewPointer(es), v: p}
}

func stubErrorf(ex *Exec, fn *ssa.Function, args []Value) (Value, *Panic) {
	ex.stubsUsed["fmt.Errorf = fresh non-nil error (text formatted when arguments are concrete)"] = true
	format := argStr(args[0])
	msg := fmt.Sprintf(format, ex.goArgs(args[1])...)
	return ex.makeError(msg), nil
}

func stubSprintf(ex *Exec, fn *ssa.Function, args []Value) (Value, *Panic) {
	format := argStr(args[0])
	return StrV(fmt.Sprintf(format, ex.goArgs(args[1])...)), nil
}

func stubSprint(ex *Exec, fn *ssa.Function, args []Value) (Value, *Panic) {
	return StrV(fmt.Sprint(ex.goArgs(args[0])...)), nil
}

func stubStr1(f func(string) string) intrinsic {
	return func(ex *Exec, fn *ssa.Function, args []Value) (Value, *Panic) {
		return StrV(f(argStr(args[0]))), nil
	}
}

func stubContains(ex *Exec, fn *ssa.Function, args []Value) (Value, *Panic) {
	return ex.ts.Bool(strings.Contains(argStr(args[0]), argStr(args[1]))), nil
}

func stubAtomicAdd32(ex *Exec, fn *ssa.Function, args []Value) (Value, *Panic) {
	p := args[0].(*Ptr)
	if p.IsNil() {
		return nil, ex.runtimePanic("nil", "nil pointer in atomic.AddUint32")
	}
	if w, ok := ex.sharedScalar(p); ok {
		ex.atomicEvents++
		return ex.recordAccess("add", p, w, args[1].(*Term), true), nil
	}
	old := p.base.get(p.idx).(*Term)
	nv := ex.ts.Bin(OpAdd, old, args[1].(*Term))
	p.base.set(p.idx, nv) // sanctioned writer: not reported by the shared-state monitor
	ex.atomicEvents++
	return nv, nil
}

func stubBytesRepeat(ex *Exec, fn *ssa.Function, args []Value) (Value, *Panic) {
	b := args[0].(*SliceV)
	cnt := args[1].(*Term)
	neg := ex.ts.Cmp(OpSlt, cnt, ex.ts.Const(64, 0))
	if pan := ex.guard(ex.ts.Not(neg), "explicit", "bytes: negative Repeat count"); pan != nil {
		return nil, pan
	}
	n := int(ex.concretize(cnt, "bytes.Repeat count"))
	arr := ex.newArray(types.Typ[types.Byte], n*b.len, "bytes.Repeat")
	for i := 0; i < n; i++ {
		for j := 0; j < b.len; j++ {
			arr.e[i*b.len+j] = b.arr.e[b.off+j]
		}
	}
	return &SliceV{arr: arr, off: 0, len: n * b.len, cap: n * b.len}, nil
}

func stubBytesEqual(ex *Exec, fn *ssa.Function, args []Value) (Value, *Panic) {
	return rtBytesEq(ex, fn, args)
}

func stubNetIPv4(ex *Exec, fn *ssa.Function, args []Value) (Value, *Panic) {
	arr := ex.newArray(types.Typ[types.Byte], 16, "net.IPv4")
	arr.e[10] = ex.ts.Const(8, 0xff)
	arr.e[11] = ex.ts.Const(8, 0xff)
	for i := 0; i < 4; i++ {
		arr.e[12+i] = args[i]
	}
	return &SliceV{arr: arr, off: 0, len: 16, cap: 16}, nil
}

// ---- DeepEq ----

func rtDeepEq(ex *Exec, fn *ssa.Function, args []Value) (Value, *Panic) {
	a, b := args[0].(*IfaceV), args[1].(*IfaceV)
	return ex.deepEq(nil, a, b, 0, map[[2]Container]bool{}), nil
}

func isNetIP(t types.Type) bool {
	n, ok := t.(*types.Named)
	return ok && n.Obj().Pkg() != nil && n.Obj().Pkg().Path() == "net" && n.Obj().Name() == "IP"
}

// ipTo4 mirrors net.IP.To4 for slices whose v4-in-v6 prefix is concrete.
func ipTo4(s *SliceV) *SliceV {
	if s.len != 16 {
		return s
	}
	for i := 0; i < 12; i++ {
		t, ok := s.arr.e[s.off+i].(*Term)
		if !ok || !t.IsConst() {
			return s
		}
		want := uint64(0)
		if i >= 10 {
			want = 0xff
		}
		if t.k != want {
			return s
		}
	}
	return &SliceV{arr: s.arr, off: s.off + 12, len: 4, cap: 4}
}

func isBytesBuffer(t types.Type) bool {
	n, ok := t.(*types.Named)
	return ok && n.Obj().Pkg() != nil && n.Obj().Pkg().Path() == "bytes" && n.Obj().Name() == "Buffer"
}

func (ex *Exec) deepEq(t types.Type, a, b Value, depth int, seen map[[2]Container]bool) *Term {
	ts := ex.ts
	if depth > 24 {
		return ts.True
	}
	switch x := a.(type) {
	case *Term:
		y, ok := b.(*Term)
		if !ok || x.w != y.w {
			return ts.Fals
		}
		if x.w == 0 {
			return ts.BoolEq(x, y)
		}
		return ts.Cmp(OpEq, x, y)
	case StrV:
		y, ok := b.(StrV)
		return ts.Bool(ok && x == y)
	case *IfaceV:
		y, ok := b.(*IfaceV)
		if !ok {
			return ts.Fals
		}
		if x.t == nil || y.t == nil {
			return ts.Bool(x.t == nil && y.t == nil)
		}
		if !types.Identical(x.t, y.t) {
			return ts.Fals
		}
		return ex.deepEq(x.t, x.v, y.v, depth+1, seen)
	case *Ptr:
		y, ok := b.(*Ptr)
		if !ok {
			return ts.Fals
		}
		if x.IsNil() || y.IsNil() {
			return ts.Bool(x.IsNil() && y.IsNil())
		}
		if x.base == y.base && x.idx == y.idx {
			return ts.True
		}
		key := [2]Container{x.base, y.base}
		if seen[key] {
			return ts.True
		}
		seen[key] = true
		var et types.Type
		if t != nil {
			if pt, ok := t.Underlying().(*types.Pointer); ok {
				et = pt.Elem()
			}
		}
		return ex.deepEq(et, x.base.get(x.idx), y.base.get(y.idx), depth+1, seen)
	case *StructV:
		y, ok := b.(*StructV)
		if !ok || len(x.f) != len(y.f) {
			return ts.Fals
		}
		if t != nil && isBytesBuffer(t) {
			xs, ys := x.f[0].(*SliceV), y.f[0].(*SliceV)
			xo, yo := int(x.f[1].(*Term).Int()), int(y.f[1].(*Term).Int())
			if xs.len-xo != ys.len-yo {
				return ts.Fals
			}
			r := ts.True
			for i := 0; i < xs.len-xo; i++ {
				r = ts.And(r, ts.Cmp(OpEq, xs.arr.e[xs.off+xo+i].(*Term), ys.arr.e[ys.off+yo+i].(*Term)))
			}
			return r
		}
		var st *types.Struct
		if t != nil {
			st, _ = t.Underlying().(*types.Struct)
		}
		r := ts.True
		for i := range x.f {
			var ft types.Type
			if st != nil {
				if !st.Field(i).Exported() && !st.Field(i).Embedded() {
					continue // unexported state is observed through the re-encoding, not here
				}
				ft = st.Field(i).Type()
			}
			r = ts.And(r, ex.deepEq(ft, x.f[i], y.f[i], depth+1, seen))
			if r.IsFalse() {
				return r
			}
		}
		return r
	case *ArrayV:
		y, ok := b.(*ArrayV)
		if !ok || len(x.e) != len(y.e) {
			return ts.Fals
		}
		var et types.Type
		if t != nil {
			if at, ok := t.Underlying().(*types.Array); ok {
				et = at.Elem()
			}
		}
		r := ts.True
		for i := range x.e {
			r = ts.And(r, ex.deepEq(et, x.e[i], y.e[i], depth+1, seen))
			if r.IsFalse() {
				return r
			}
		}
		return r
	case *SliceV:
		y, ok := b.(*SliceV)
		if ok && t != nil && isNetIP(t) {
			// net.IP: the 4-byte and the 16-byte (::ffff:a.b.c.d) forms are the same address
			x, y = ipTo4(x), ipTo4(y)
		}
		if !ok || x.len != y.len {
			return ts.Fals
		}
		var et types.Type
		if t != nil {
			if st, ok := t.Underlying().(*types.Slice); ok {
				et = st.Elem()
			}
		}
		r := ts.True
		for i := 0; i < x.len; i++ {
			r = ts.And(r, ex.deepEq(et, x.arr.e[x.off+i], y.arr.e[y.off+i], depth+1, seen))
			if r.IsFalse() {
				return r
			}
		}
		return r
	case *MapV:
		y, ok := b.(*MapV)
		if !ok {
			return ts.Fals
		}
		lx, ly := 0, 0
		if x.m != nil {
			lx = len(x.m.entries)
		}
		if y.m != nil {
			ly = len(y.m.entries)
		}
		return ts.Bool(lx == ly)
	case *FuncV:
		y, ok := b.(*FuncV)
		return ts.Bool(ok && (x.fn == nil) == (y.fn == nil))
	case *ChanV:
		y, ok := b.(*ChanV)
		return ts.Bool(ok && (x.c == nil) == (y.c == nil))
	case *OpaqueV:
		y, ok := b.(*OpaqueV)
		if !ok {
			return ts.Fals
		}
		if xb, ok := x.x.(*bigVal); ok {
			if yb, ok := y.x.(*bigVal); ok {
				return ts.Cmp(OpEq, xb.mag, yb.mag)
			}
		}
		return ts.Bool(x.x == y.x)
	case nil:
		return ts.Bool(b == nil)
	}
	panic(ex.unsupported(fmt.Sprintf("DeepEq on %T", a)))
}

// ---- sync.Pool: contract model ----
// Put(x) adds x to the pool; Get removes and returns ANY item previously put (the choice is a
// fork, most recently put first — which is what the runtime does on one goroutine without a
// collection in between), or, as the last alternative, the result of New (nil without New).
// The runtime may also drop items at any time; dropping is covered by the New alternative.

type poolKey struct {
	c   Container
	idx int
}

func poolOf(ex *Exec, v Value, what string) (poolKey, *StructV, *Panic) {
	p, ok := v.(*Ptr)
	if !ok || p.IsNil() {
		return poolKey{}, nil, ex.runtimePanic("nil", "invalid memory address or nil pointer dereference (nil *sync.Pool in "+what+")")
	}
	sv, ok := p.base.get(p.idx).(*StructV)
	if !ok {
		panic(ex.unsupported("sync.Pool with unexpected layout"))
	}
	return poolKey{p.base, p.idx}, sv, nil
}

func stubPoolPut(ex *Exec, fn *ssa.Function, a []Value) (Value, *Panic) {
	k, _, pan := poolOf(ex, a[0], "Put")
	if pan != nil {
		return nil, pan
	}
	ex.stubsUsed["sync.Pool = Get returns any item previously Put, or New()"] = true
	if iv, ok := a[1].(*IfaceV); ok && iv.t == nil {
		return nil, nil // Put(nil) is a no-op
	}
	if ex.pools == nil {
		ex.pools = map[poolKey][]Value{}
	}
	ex.pools[k] = append(ex.pools[k], a[1])
	return nil, nil
}

func stubPoolGet(ex *Exec, fn *ssa.Function, a []Value) (Value, *Panic) {
	k, sv, pan := poolOf(ex, a[0], "Get")
	if pan != nil {
		return nil, pan
	}
	ex.stubsUsed["sync.Pool = Get returns any item previously Put, or New()"] = true
	items := ex.pools[k]
	c := 0
	if len(items) > 0 {
		c = ex.choose(len(items)+1, ex.freshName("sync.Pool.Get"))
	}
	if c < len(items) {
		i := len(items) - 1 - c
		v := items[i]
		rest := append([]Value{}, items[:i]...)
		ex.pools[k] = append(rest, items[i+1:]...)
		return v, nil
	}
	// New is the last field of sync.Pool
	st := fn.Signature.Recv().Type().(*types.Pointer).Elem().Underlying().(*types.Struct)
	for i := 0; i < st.NumFields(); i++ {
		if st.Field(i).Name() == "New" {
			if f, ok := sv.f[i].(*FuncV); ok && f != nil && f.fn != nil {
				return ex.callFuncV(f, nil, nil)
			}
		}
	}
	return nilIface, nil
}
