//go:build verif

package common

// C14 (transaction ids): the header generator's shared-memory accesses, under every
// interleaving of 2 and 3 (thorough: 4) concurrent callers, from every initial counter value
// not within reach of the 32-bit wrap: no two callers obtain the same Xid, and no two
// accesses race.

import (
	vr "github.com/contiv/libOpenflow/verifrt"
)

func c14draw() uint32 {
	h := NewHeaderGenerator(4)()
	return h.Xid
}

func VerifC14_XidTwoThreads()   { vr.Threads(2, c14draw, "xids-pairwise-distinct") }
func VerifC14_XidThreeThreads() { vr.Threads(3, c14draw, "xids-pairwise-distinct") }

// each thread draws twice (a request and the bundle member that must be matched with it)
func VerifC14_XidTwoDrawsEach() {
	vr.Threads(2, func() uint32 {
		c14draw()
		return c14draw()
	}, "xids-pairwise-distinct")
}

func VerifC14_XidFourThreads() {
	if !vr.Thorough() {
		return
	}
	vr.Threads(4, c14draw, "xids-pairwise-distinct")
}

// ids drawn on different paths — the hello constructor on one thread, the header generator on the
// others — come from the same sequence: no two are equal under any interleaving
func VerifC14_XidHelloAndGenerator() {
	helloThread := vr.Choice("hello-thread", 2)
	vr.ThreadsIdx(2, func(i int) uint32 {
		if i == helloThread {
			h, _ := NewHello(4)
			return h.Xid
		}
		return c14draw()
	}, "xids-pairwise-distinct")
}
