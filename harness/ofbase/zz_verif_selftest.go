//go:build verif

package ofbase

// Engine self-test (symgo selftest): small functions exercising the Go semantics the encoder
// has to get right. Each harness records results with vr.Observe; the engine's concrete run and
// the native run of sampled models must agree on them, and the assertions state facts that are
// true in Go, so a wrong encoding shows up as a (natively unconfirmed) violation.

import (
	vr "github.com/contiv/libOpenflow/verifrt"
	"sync"
)

func VerifST_Shifts() {
	x8, x16, x32, x64 := vr.U8("x8"), vr.U16("x16"), vr.U32("x32"), vr.U64("x64")
	n := vr.U8("n")
	vr.Observe("shl8", x8<<n)
	vr.Observe("shr16", x16>>n)
	vr.Observe("sar32", int32(x32)>>n)
	vr.Observe("shl64", x64<<n)
	vr.Assert(vr.Implies(n >= 8, x8<<n == 0), "shift-by-width-or-more-is-zero")
	vr.Assert(vr.Implies(n >= 32, int32(x32)>>n == -1 || int32(x32)>>n == 0), "arithmetic-shift-saturates")
	vr.Assert(x64<<64 == 0, "constant-shift-by-64")
}

func VerifST_Conversions() {
	x := vr.U64("x")
	vr.Observe("u8", uint8(x))
	vr.Observe("i8", int64(int8(x)))
	vr.Observe("i16", int32(int16(x)))
	vr.Observe("u32", uint32(x))
	vr.Assert(uint64(uint8(x)) == x&0xff, "narrowing-keeps-low-bits")
	vr.Assert(int64(int8(x)) == int64(x<<56)>>56, "signed-narrowing-sign-extends")
	vr.Assert(uint16(uint8(x))<<8|uint16(uint8(x>>8)) == uint16(x)<<8|uint16(x)>>8, "byte-swap")
}

// 8-bit operands: symbolic-by-symbolic division at 32 bits runs past the solver cap on all three
// back ends; the operator semantics (truncation toward zero, sign of the remainder) are the same
func VerifST_DivRem() {
	a, b := int8(vr.U8("a")), int8(vr.U8("b"))
	vr.Assume(b != 0)
	vr.Assume(!(a == -128 && b == -1))
	q, r := a/b, a%b
	vr.Observe("q", q)
	vr.Observe("r", r)
	vr.Assert(q*b+r == a, "quotient-remainder-identity")
	vr.Assert(r == 0 || (r < 0) == (a < 0), "remainder-has-the-dividend's-sign")
	ua, ub := vr.U8("ua"), vr.U8("ub")
	vr.Assume(ub != 0)
	vr.Observe("uq", ua/ub)
	vr.Assert((ua/ub)*ub+ua%ub == ua, "unsigned-identity")
	w := vr.U16("w")
	vr.Observe("up8", (w+7)/8*8)
	vr.Assert((w+7)/8*8 >= w || w > 0xfff8, "round-up-to-8")
	vr.Assert((int32(w)+7)/8*8-int32(w) < 8, "signed-round-up-to-8")
}

func VerifST_AppendAliasing() {
	s := make([]byte, 2, 4)
	s[0], s[1] = vr.U8("a"), vr.U8("b")
	t := append(s, vr.U8("c")) // within capacity: shares the array
	u := append(s, vr.U8("d")) // overwrites t[2]
	v := append(t, 1, 2, 3)    // beyond capacity: new array
	v[0] = 0xee
	vr.Observe("t", t)
	vr.Observe("u", u)
	vr.Observe("v", v)
	vr.Assert(t[2] == u[2], "append-within-capacity-aliases")
	vr.Assert(vr.Implies(s[0] != 0xee, t[0] != 0xee), "append-beyond-capacity-copies")
	vr.Assert(len(v) == 6 && cap(s[1:]) == 3 && len(s[:0]) == 0, "lengths-and-capacities")
}

func VerifST_CopyOverlap() {
	b := vr.Bytes("b", 6)
	n := copy(b[2:], b[:5])
	vr.Observe("n", n)
	vr.Observe("b", b)
	c := make([]byte, 3)
	m := copy(c, b)
	vr.Observe("m", m)
	vr.Assert(n == 4 && m == 3, "copy-counts")
}

type stShape interface{ area() uint32 }
type stSq struct{ s uint32 }
type stRect struct{ w, h uint32 }

func (q stSq) area() uint32    { return q.s * q.s }
func (r *stRect) area() uint32 { return r.w * r.h }

func VerifST_Interfaces() {
	var sh stShape
	if vr.Bool("square") {
		sh = stSq{vr.U32("s")}
	} else {
		sh = &stRect{vr.U32("w"), vr.U32("h")}
	}
	vr.Observe("area", sh.area())
	_, isSq := sh.(stSq)
	r, isRect := sh.(*stRect)
	vr.Assert(isSq != isRect, "exactly-one-dynamic-type")
	if isRect {
		r.w = 0
		vr.Assert(sh.area() == 0, "pointer-receiver-aliases")
	}
}

func stRecover(f func()) (res string) {
	defer func() {
		if r := recover(); r != nil {
			res = "recovered"
		}
	}()
	defer func() { res = "second-defer-ran" }()
	f()
	return "returned"
}

func VerifST_DeferRecover() {
	b := vr.Bytes("b", 3)
	i := int(vr.U8("i"))
	out := stRecover(func() { _ = b[i] })
	vr.Observe("out", out)
	vr.Assert((out == "recovered") == (i >= 3), "index-panic-iff-out-of-range")
}

func VerifST_MapsClosures() {
	m := map[string]uint32{"a": 1, "b": 2}
	k := []string{"a", "b", "c"}[vr.Choice("k", 3)]
	v, ok := m[k]
	vr.Observe("v", v)
	vr.Observe("ok", ok)
	acc := uint32(0)
	add := func(x uint32) { acc += x }
	add(vr.U32("x"))
	add(v)
	vr.Observe("acc", acc)
	vr.Assert(ok == (k != "c"), "map-membership")
}

func VerifST_StructsArrays() {
	type inner struct {
		a [4]uint8
		n uint16
	}
	var x inner
	copy(x.a[:], vr.Bytes("a", 4))
	x.n = vr.U16("n")
	y := x // value copy
	y.a[0]++
	p := &x
	p.n ^= 0xffff
	vr.Observe("x", x)
	vr.Observe("y", y)
	vr.Assert(y.a[0] == x.a[0]+1 && y.n == x.n^0xffff, "struct-copy-is-by-value")
}

var stPool = sync.Pool{New: func() interface{} { return new([2]uint8) }}

// the sync.Pool contract model: whatever Get hands out (an item put earlier, or a new one), a
// caller that initialises what it got sees its own values
func VerifST_SyncPool() {
	a := stPool.Get().(*[2]uint8)
	a[0], a[1] = vr.U8("x"), 1
	stPool.Put(a)
	b := stPool.Get().(*[2]uint8)
	vr.Observe("reused", b == a)
	b[0] = 7
	vr.Assert(b[0] == 7 && (b[1] == 1) == (b == a), "pool-item-is-the-put-one-or-new")
	stPool.Put(b)
}
