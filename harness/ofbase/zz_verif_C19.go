//go:build verif

package ofbase

import (
	vr "github.com/contiv/libOpenflow/verifrt"
)

// C19 — base encoder/decoder primitives.

// One Put* from an arbitrary encoder state (k symbolic bytes already written):
// bytes == old ++ big-endian(value).
func VerifC19_EncoderStep() {
	k := vr.IntRange("k", 0, 9)
	old := vr.Bytes("old", k)
	e := NewEncoder()
	e.Write(old)
	op := vr.Choice("op", 7)
	var want []byte
	switch op {
	case 0:
		v := vr.U8("v8")
		e.PutUint8(v)
		want = []byte{v}
	case 1:
		v := vr.U8("c")
		e.PutChar(v)
		want = []byte{v}
	case 2:
		v := vr.U16("v16")
		e.PutUint16(v)
		want = []byte{byte(v >> 8), byte(v)}
	case 3:
		v := vr.U32("v32")
		e.PutUint32(v)
		want = []byte{byte(v >> 24), byte(v >> 16), byte(v >> 8), byte(v)}
	case 4:
		v := vr.U64("v64")
		e.PutUint64(v)
		want = []byte{byte(v >> 56), byte(v >> 48), byte(v >> 40), byte(v >> 32), byte(v >> 24), byte(v >> 16), byte(v >> 8), byte(v)}
	case 5:
		hi, lo := vr.U64("hi"), vr.U64("lo")
		e.PutUint128(Uint128{Hi: hi, Lo: lo})
		want = []byte{byte(hi >> 56), byte(hi >> 48), byte(hi >> 40), byte(hi >> 32), byte(hi >> 24), byte(hi >> 16), byte(hi >> 8), byte(hi),
			byte(lo >> 56), byte(lo >> 48), byte(lo >> 40), byte(lo >> 32), byte(lo >> 24), byte(lo >> 16), byte(lo >> 8), byte(lo)}
	case 6:
		n := vr.IntRange("rawlen", 0, 5)
		raw := vr.Bytes("raw", n)
		e.Write(raw)
		want = raw
	}
	got := e.Bytes()
	vr.Assert(len(got) == k+len(want), "length advanced by exactly the width")
	vr.Assert(vr.BytesEq(got[:k], old), "earlier bytes untouched")
	vr.Assert(vr.BytesEq(got[k:], want), "appended bytes == big-endian(value)")
	vr.Observe("bytes", got)
}

// One Read* at an arbitrary offset of an arbitrary buffer.
func VerifC19_DecoderStep() {
	n := vr.IntRange("n", 0, 20)
	data := vr.Bytes("data", n)
	off := vr.IntRange("off", 0, n)
	d := NewDecoder(data)
	d.Skip(off)
	op := vr.Choice("op", 7)
	width := []int{1, 1, 2, 4, 8, 16, 3}[op]
	panicked := true
	func() {
		defer func() { recover() }()
		switch op {
		case 0:
			v := d.ReadByte()
			vr.Assert(v == data[off], "ReadByte value")
		case 1:
			v := d.ReadUint8()
			vr.Assert(v == data[off], "ReadUint8 value")
		case 2:
			v := d.ReadUint16()
			vr.Assert(v == uint16(data[off])<<8|uint16(data[off+1]), "ReadUint16 value")
		case 3:
			v := d.ReadUint32()
			vr.Assert(v == uint32(data[off])<<24|uint32(data[off+1])<<16|uint32(data[off+2])<<8|uint32(data[off+3]), "ReadUint32 value")
		case 4:
			v := d.ReadUint64()
			var w uint64
			for i := 0; i < 8; i++ {
				w = w<<8 | uint64(data[off+i])
			}
			vr.Assert(v == w, "ReadUint64 value")
		case 5:
			v := d.ReadUint128()
			var hi, lo uint64
			for i := 0; i < 8; i++ {
				hi = hi<<8 | uint64(data[off+i])
				lo = lo<<8 | uint64(data[off+8+i])
			}
			vr.Assert(vr.And(v.Hi == hi, v.Lo == lo), "ReadUint128 value")
		case 6:
			v := d.Read(3)
			vr.Assert(vr.BytesEq(v, data[off:off+3]), "Read(3) value")
		}
		panicked = false
	}()
	// the primitives are documented as unchecked: they panic iff fewer bytes remain
	vr.Assert(panicked == (n-off < width), "panics iff fewer than width bytes remain")
	if !panicked {
		vr.Assert(d.Offset() == off+width, "offset advanced by exactly the width")
		vr.Assert(d.Length() == n-off-width, "remaining length")
	}
}

// Write-then-read sequences of up to 4 typed operations return the values in order.
func VerifC19_Sequence() {
	k := vr.IntRange("ops", 1, 3)
	if vr.Thorough() {
		k = vr.IntRange("ops4", 4, 4)
	}
	e := NewEncoder()
	var kinds [4]int
	var vals [4]uint64
	var vals2 [4]uint64
	total := 0
	for i := 0; i < k; i++ {
		kinds[i] = vr.Choice("kind", 6)
		vals[i] = vr.U64("val")
		switch kinds[i] {
		case 0:
			e.PutUint8(uint8(vals[i]))
			total += 1
		case 1:
			e.PutUint16(uint16(vals[i]))
			total += 2
		case 2:
			e.PutUint32(uint32(vals[i]))
			total += 4
		case 3:
			e.PutUint64(vals[i])
			total += 8
		case 4:
			vals2[i] = vr.U64("val2")
			e.PutUint128(Uint128{Hi: vals[i], Lo: vals2[i]})
			total += 16
		case 5:
			e.SkipAlign()
			total = (total + 7) / 8 * 8
		}
	}
	b := e.Bytes()
	vr.Assert(len(b) == total, "encoded length == sum of widths")
	d := NewDecoder(b)
	for i := 0; i < k; i++ {
		before := d.Offset()
		switch kinds[i] {
		case 0:
			vr.Assert(d.ReadUint8() == uint8(vals[i]), "u8 returned unchanged")
			vr.Assert(d.Offset() == before+1, "u8 advances 1")
		case 1:
			vr.Assert(d.ReadUint16() == uint16(vals[i]), "u16 returned unchanged")
			vr.Assert(d.Offset() == before+2, "u16 advances 2")
		case 2:
			vr.Assert(d.ReadUint32() == uint32(vals[i]), "u32 returned unchanged")
			vr.Assert(d.Offset() == before+4, "u32 advances 4")
		case 3:
			vr.Assert(d.ReadUint64() == vals[i], "u64 returned unchanged")
			vr.Assert(d.Offset() == before+8, "u64 advances 8")
		case 4:
			v := d.ReadUint128()
			vr.Assert(vr.And(v.Hi == vals[i], v.Lo == vals2[i]), "u128 returned unchanged")
			vr.Assert(d.Offset() == before+16, "u128 advances 16")
		case 5:
			d.SkipAlign()
			vr.Assert(d.Offset()%8 == 0, "aligned after skip")
			vr.Assert(vr.And(d.Offset() >= before, d.Offset()-before <= 7), "skip at most 7, never backwards")
		}
	}
	vr.Assert(d.Length() == 0, "all bytes consumed")
}

// Alignment over the full domain: symbolic base and offset in [0, 2^31).
func VerifC19_DecoderSkipAlign() {
	base := vr.Int("base")
	off := vr.Int("off")
	vr.Assume(vr.And(vr.And(0 <= base, base < 1<<31), vr.And(0 <= off, off < 1<<31)))
	d := &Decoder{buffer: nil, offset: off, baseOffset: base}
	d.SkipAlign()
	vr.Assert((base+d.offset)%8 == 0, "base+offset multiple of 8")
	vr.Assert(d.offset >= off, "never backwards")
	vr.Assert(d.offset-off <= 7, "at most 7 bytes")
	vr.Assert(d.baseOffset == base, "base unchanged")
}

func VerifC19_EncoderSkipAlign() {
	k := vr.IntRange("k", 0, 17)
	old := vr.Bytes("old", k)
	e := NewEncoder()
	e.Write(old)
	e.SkipAlign()
	b := e.Bytes()
	vr.Assert(len(b)%8 == 0, "length multiple of 8")
	vr.Assert(vr.And(len(b) >= k, len(b)-k <= 7), "at most 7 bytes, never backwards")
	vr.Assert(vr.BytesEq(b[:k], old), "earlier bytes untouched")
	for i := k; i < len(b); i++ {
		vr.Assert(b[i] == 0, "padding is zero")
	}
}

// SliceDecoder bookkeeping: base/offset of the child and advance of the parent.
func VerifC19_SliceDecoder() {
	nmax := 6
	if vr.Thorough() {
		nmax = 12
	}
	n := vr.IntRange("n", 0, nmax)
	data := vr.Bytes("data", n)
	pbase := vr.Int("pbase")
	vr.Assume(vr.And(0 <= pbase, pbase < 1<<31))
	off := vr.IntRange("off", 0, n)
	rewind := vr.IntRange("rewind", 0, 2)
	length := vr.IntRange("length", rewind, n-off+rewind)
	d := &Decoder{buffer: data, offset: off, baseOffset: pbase}
	c := d.SliceDecoder(length, rewind)
	vr.Assert(c.BaseOffset() == pbase+off, "child base == parent base + parent offset")
	vr.Assert(c.Offset() == 0, "child starts at 0")
	vr.Assert(c.Length() == length-rewind, "child length")
	vr.Assert(d.Offset() == off+length-rewind, "parent advanced past the child")
	vr.Assert(vr.BytesEq(c.Bytes(), data[off:off+length-rewind]), "child bytes")
}

// Alignment inside a sliced decoder counts from the start of the enclosing message:
// symbolic parent base (full 31-bit domain), parent offset and skip enumerated.
func VerifC19_SliceDecoderAlign() {
	data := vr.Bytes("data", 12)
	pbase := vr.Int("pbase")
	vr.Assume(vr.And(0 <= pbase, pbase < 1<<31))
	off := vr.IntRange("off", 0, 3)
	d := &Decoder{buffer: data, offset: off, baseOffset: pbase}
	c := d.SliceDecoder(9, 0)
	k := vr.IntRange("skip", 0, 8)
	c.Skip(k)
	c.SkipAlign()
	vr.Assert((c.BaseOffset()+c.Offset())%8 == 0, "child aligned relative to message start")
	vr.Assert(vr.And(c.Offset() >= k, c.Offset()-k <= 7), "child skip at most 7, never backwards")
}

// Header.Decode: fewer than 8 bytes => error, no panic escapes; >= 8 => the four fields.
func VerifC19_HeaderDecode() {
	n := vr.IntRange("n", 0, 12)
	data := vr.Bytes("data", n)
	var h Header
	err := h.Decode(NewDecoder(data))
	if n < 8 {
		vr.Assert(err != nil, "short input is an error")
	} else {
		vr.Assert(err == nil, "full header decodes")
		vr.Assert(h.Version == data[0], "version")
		vr.Assert(h.Type == data[1], "type")
		vr.Assert(h.Length == uint16(data[2])<<8|uint16(data[3]), "length")
		vr.Assert(h.Xid == uint32(data[4])<<24|uint32(data[5])<<16|uint32(data[6])<<8|uint32(data[7]), "xid")
	}
}

// Header.Decode over a decoder that is already positioned: the length pre-check and the recover.
func VerifC19_HeaderDecodeAtOffset() {
	n := vr.IntRange("n", 0, 12)
	data := vr.Bytes("data", n)
	off := vr.IntRange("off", 0, n)
	d := NewDecoder(data)
	d.Skip(off)
	var h Header
	err := h.Decode(d)
	vr.Assert((err != nil) == (n-off < 8), "error iff fewer than 8 bytes remain")
}

// Header.Decode of a short input that is a window of a larger buffer (a frame inside a receive
// buffer): the bytes after the window are not part of the input, so fewer than 8 bytes is still
// an error — a re-slice within the spare capacity would not panic and so would not be recovered.
func VerifC19_HeaderDecodeWindow() {
	buf := vr.Bytes("buf", 16)
	start := vr.IntRange("start", 0, 4)
	n := vr.IntRange("n", 0, 12)
	data := buf[start : start+n]
	off := vr.IntRange("off", 0, n)
	d := NewDecoder(data)
	d.Skip(off)
	var h Header
	err := h.Decode(d)
	vr.Assert((err != nil) == (n-off < 8), "error iff fewer than 8 bytes remain in the window")
	if err == nil {
		b := data[off:]
		vr.Assert(h.Version == b[0] && h.Type == b[1], "version and type")
		vr.Assert(h.Length == uint16(b[2])<<8|uint16(b[3]), "length")
		vr.Assert(h.Xid == uint32(b[4])<<24|uint32(b[5])<<16|uint32(b[6])<<8|uint32(b[7]), "xid")
	}
}
