//go:build verif

package protocol

// C09 — packet headers round-trip (decode(encode(v)) has the same fields, re-encodes to the same
// bytes, reports the size consumed), packed sub-byte fields sit in their own bit lanes (checked
// against the RFC layouts over the full width of every packed group), and the payload decoder is
// chosen by ethertype / IPv4 protocol / IPv6 next-header chain.
// Bounds: payload ≤ 8 B (16 thorough), ≤ 2 sources / records / options (3 thorough).

import (
	"github.com/contiv/libOpenflow/util"
	vr "github.com/contiv/libOpenflow/verifrt"
)

func c09max() int {
	if vr.Thorough() {
		return 16
	}
	return 8
}

func c09n() int {
	if vr.Thorough() {
		return 3
	}
	return 2
}

// c09rt: encode v, decode into w, compare.
func c09rt(v, w util.Message) []byte {
	b, err := v.MarshalBinary()
	vr.Assert(err == nil, "marshal-ok")
	in := make([]byte, len(b))
	copy(in, b)
	err = w.UnmarshalBinary(in)
	vr.Assert(err == nil, "decode-ok")
	vr.Assert(int(w.Len()) == len(b), "decoded-size==bytes-consumed")
	b2, err := w.MarshalBinary()
	vr.Assert(err == nil, "re-marshal-ok")
	vr.Assert(len(b2) == len(b), "re-encoding-size")
	vr.Assert(vr.BytesEq(b2, b), "re-encoding==bytes")
	return b
}

func VerifC09_VLAN() {
	v := bldVLAN()
	v.TPID = vr.U16("tpid")
	w := new(VLAN)
	b := c09rt(v, w)
	vr.Assert(vr.DeepEq(v, w), "fields-equal")
	// IEEE 802.1Q TCI: pcp(3) dei(1) vid(12)
	vr.Assert(be16(b, 2) == uint16(v.PCP)<<13|uint16(v.DEI)<<12|v.VID, "tci-layout")
}

func be16(b []byte, off int) uint16 { return uint16(b[off])<<8 | uint16(b[off+1]) }

func VerifC09_ARP() {
	v := bldARP()
	w := new(ARP)
	c09rt(v, w)
	vr.Assert(vr.DeepEq(v, w), "fields-equal")
}

func VerifC09_ICMP() {
	v := bldICMP(c09max())
	w := NewICMP()
	c09rt(v, w)
	vr.Assert(vr.DeepEq(v, w), "fields-equal")
}

func VerifC09_UDP() {
	v := bldUDP(c09max())
	w := NewUDP()
	c09rt(v, w)
	vr.Assert(vr.DeepEq(v, w), "fields-equal")
}

func VerifC09_TCP() {
	v := bldTCP(c09max())
	w := NewTCP()
	b := c09rt(v, w)
	vr.Assert(vr.DeepEq(v, w), "fields-equal")
	// RFC 793: data offset in the high nibble of byte 12; the six control bits in the low bits of byte 13
	vr.Assert(b[12]>>4 == v.HdrLen, "data-offset-lane")
	vr.Assert(b[13]&0x3f == v.Code, "flags-lane")
}

func VerifC09_Option() {
	v := bldOption(c09max())
	w := new(Option)
	c09rt(v, w)
	vr.Assert(vr.DeepEq(v, w), "fields-equal")
}

func VerifC09_HopByHop() {
	v := bldHopByHop(vr.U8("next"), true)
	w := NewHopByHopHeader()
	c09rt(v, w)
	vr.Assert(vr.DeepEq(v, w), "fields-equal")
}

func VerifC09_Routing() {
	v := bldRouting(vr.U8("next"), true)
	w := NewRoutingHeader()
	c09rt(v, w)
	vr.Assert(vr.DeepEq(v, w), "fields-equal")
}

func VerifC09_Fragment() {
	v := bldFragment(vr.U8("next"))
	w := NewFragmentHeader()
	b := c09rt(v, w)
	vr.Assert(vr.DeepEq(v, w), "fields-equal")
	// RFC 8200: offset(13) res(2) M(1)
	vr.Assert(be16(b, 2)>>3 == v.FragmentOffset, "fragment-offset-lane")
	vr.Assert((be16(b, 2)&1 == 1) == v.MoreFragments, "more-flag-lane")
	vr.Assert(be16(b, 2)&6 == 0, "reserved-bits-zero")
}

func VerifC09_IGMPv1or2() {
	v := bldIGMPv1or2()
	w := new(IGMPv1or2)
	c09rt(v, w)
	vr.Assert(vr.DeepEq(v, w), "fields-equal")
}

func VerifC09_IGMPv3Query() {
	v := bldIGMPv3Query(c09n())
	w := new(IGMPv3Query)
	b := c09rt(v, w)
	vr.Assert(vr.DeepEq(v, w), "fields-equal")
	// RFC 3376: resv(4) S(1) QRV(3)
	vr.Assert(b[8]&7 == v.RobustnessValue, "qrv-lane")
	vr.Assert((b[8]&8 != 0) == v.SuppressRouterProcessing, "s-flag-lane")
	vr.Assert(b[8]&0xf0 == 0, "reserved-bits-zero")
}

func VerifC09_IGMPv3GroupRecord() {
	v := bldGroupRecord(c09n())
	w := new(IGMPv3GroupRecord)
	c09rt(&v, w)
	vr.Assert(vr.DeepEq(&v, w), "fields-equal")
}

func VerifC09_IGMPv3Report() {
	v := bldIGMPv3Report(c09n(), 1)
	w := new(IGMPv3MembershipReport)
	c09rt(v, w)
	vr.Assert(vr.DeepEq(v, w), "fields-equal")
}

func VerifC09_IPv4() {
	kind := vr.Choice("payload", 3)
	v := bldIPv4(kind, c09max())
	w := NewIPv4()
	b := c09rt(v, w)
	vr.Assert(vr.DeepEq(v, w), "fields-equal")
	// RFC 791 packed groups
	vr.Assert(b[0] == v.Version<<4|v.IHL, "version/ihl-lanes")
	vr.Assert(b[1] == v.DSCP<<2|v.ECN, "dscp/ecn-lanes")
	vr.Assert(be16(b, 6) == v.Flags<<13|v.FragmentOffset, "flags/fragment-offset-lanes")
	// demux by protocol number
	c09demuxIP(w.Data, v.Protocol, Type_ICMP)
}

func c09demuxIP(d util.Message, proto uint8, icmpProto uint8) {
	_, isICMP := d.(*ICMP)
	_, isUDP := d.(*UDP)
	_, isRaw := d.(*util.Buffer)
	vr.Assert(isICMP == (proto == icmpProto), "demux-icmp")
	vr.Assert(isUDP == (proto == Type_UDP), "demux-udp")
	vr.Assert(isRaw == (proto != icmpProto && proto != Type_UDP), "demux-raw")
}

func VerifC09_IPv6() {
	nchains := 10
	if vr.Thorough() {
		nchains = len(ipv6Chains)
	}
	chain := vr.Choice("chain", nchains)
	v := bldIPv6(chain, vr.Choice("payload", 3), c09max())
	w := new(IPv6)
	b := c09rt(v, w)
	vr.Assert(vr.DeepEq(v, w), "fields-equal")
	// RFC 8200: version(4) traffic class(8) flow label(20)
	word := uint32(b[0])<<24 | uint32(b[1])<<16 | uint32(b[2])<<8 | uint32(b[3])
	vr.Assert(word == uint32(v.Version)<<28|uint32(v.TrafficClass)<<20|v.FlowLabel, "version/class/flow-lanes")
	// the payload decoder follows the chain to its last next-header
	last := v.NextHeader
	for _, t := range ipv6Chains[chain] {
		switch t {
		case Type_HBH:
			vr.Assert(w.HbhHeader != nil, "hbh-decoded")
			last = v.HbhHeader.NextHeader
		case Type_Routing:
			vr.Assert(w.RoutingHeader != nil, "routing-decoded")
			last = v.RoutingHeader.NextHeader
		case Type_Fragment:
			vr.Assert(w.FragmentHeader != nil, "fragment-decoded")
			last = v.FragmentHeader.NextHeader
		}
	}
	c09demuxIP(w.Data, last, Type_IPv6ICMP)
}

// Ethernet: round trip for tagged (any VID/PCP, including 0) and untagged frames, and the payload
// decoder chosen by the ethertype found after the tag.
func VerifC09_Ethernet() {
	kind := vr.Choice("payload", 4)
	v := bldEthernet(kind, c09max())
	w := NewEthernet()
	c09rt(v, w)
	vr.Assert(vr.DeepEq(v.HWDst, w.HWDst), "hwdst-equal")
	vr.Assert(vr.DeepEq(v.HWSrc, w.HWSrc), "hwsrc-equal")
	vr.Assert(v.Ethertype == w.Ethertype, "ethertype-equal")
	vr.Assert(vr.DeepEq(v.Data, w.Data), "payload-equal")
	vr.Assert(v.VLANID.VID == w.VLANID.VID, "vid-equal")
	if v.VLANID.VID == 0 {
		// a priority-tagged frame (VID 0, PCP/DEI set)
		vr.Assert(v.VLANID.PCP == w.VLANID.PCP, "pcp-equal(vid=0)")
		vr.Assert(v.VLANID.DEI == w.VLANID.DEI, "dei-equal(vid=0)")
	} else {
		vr.Assert(v.VLANID.PCP == w.VLANID.PCP, "pcp-equal")
		vr.Assert(v.VLANID.DEI == w.VLANID.DEI, "dei-equal")
	}
}

// demux on raw frames: the frame bytes are symbolic except for what the grammar fixes; the
// tagged and the untagged form of the same frame must select the same payload decoder.
func VerifC09_EthernetDemux() {
	et := vr.U16("ethertype")
	vr.Assume(et != VLAN_MSG)
	body := vr.Bytes("body", 48)
	// make the body decodable by whichever decoder is chosen: IPv4 needs IHL in [5, 10] (leaves
	// the 8 bytes a UDP header needs)
	ihl := body[0] & 0x0f
	vr.Assume(vr.Or(et != IPv4_MSG, vr.And(ihl >= 5, ihl <= 10)))
	// IPv6: no extension headers (next header is none of 0, 43, 44)
	vr.Assume(vr.Or(et != IPv6_MSG, vr.And(body[6] != Type_HBH, vr.And(body[6] != Type_Routing, body[6] != Type_Fragment))))
	// ARP: address lengths that fit
	vr.Assume(vr.Or(et != ARP_MSG, vr.And(body[4] <= 6, body[5] <= 4)))
	mac := vr.Bytes("macs", 12)
	tci := vr.U16("tci")

	plain := make([]byte, 14+len(body))
	copy(plain, mac)
	plain[12], plain[13] = byte(et>>8), byte(et)
	copy(plain[14:], body)
	tagged := make([]byte, 18+len(body))
	copy(tagged, mac)
	tagged[12], tagged[13], tagged[14], tagged[15] = 0x81, 0x00, byte(tci>>8), byte(tci)
	tagged[16], tagged[17] = byte(et>>8), byte(et)
	copy(tagged[18:], body)

	e1, e2 := NewEthernet(), NewEthernet()
	vr.Assert(e1.UnmarshalBinary(plain) == nil, "untagged-decodes")
	vr.Assert(e2.UnmarshalBinary(tagged) == nil, "tagged-decodes")
	vr.Assert(e1.Ethertype == et, "untagged-ethertype")
	vr.Assert(e2.Ethertype == et, "tagged-inner-ethertype")
	vr.Assert(e2.VLANID.VID == tci&0xfff, "tag-vid")
	vr.Assert(e2.VLANID.PCP == uint8(tci>>13), "tag-pcp")
	vr.Assert(e2.VLANID.DEI == uint8(tci>>12)&1, "tag-dei")
	c09demuxEth(e1.Data, et, "untagged")
	c09demuxEth(e2.Data, et, "tagged")
	vr.Assert(vr.DeepEq(e1.Data, e2.Data), "same-payload-either-way")
}

func c09demuxEth(d util.Message, et uint16, which string) {
	_, is4 := d.(*IPv4)
	_, is6 := d.(*IPv6)
	_, isARP := d.(*ARP)
	_, isRaw := d.(*util.Buffer)
	vr.Assert(is4 == (et == IPv4_MSG), which+"-demux-ipv4")
	vr.Assert(is6 == (et == IPv6_MSG), which+"-demux-ipv6")
	vr.Assert(isARP == (et == ARP_MSG), which+"-demux-arp")
	vr.Assert(isRaw == (et != IPv4_MSG && et != IPv6_MSG && et != ARP_MSG), which+"-demux-raw")
}

// DHCP: Read (encode) then Write (decode) gives back the fields and the options.
func VerifC09_DHCP() {
	v := bldDHCP(c09n())
	// an END option ends the list on the wire: only lists whose END (if any) is last are well-formed
	for i, o := range v.Options {
		if o.OptionType() == DHCP_OPT_END {
			vr.Assume(i == len(v.Options)-1)
		}
	}
	buf := make([]byte, 400)
	n, err := v.Read(buf)
	vr.Assert(err == nil, "read-ok")
	w := new(DHCP)
	m, err := w.Write(buf[:n])
	vr.Assert(err == nil, "decode-ok")
	vr.Assert(m == n, "bytes-consumed==bytes-produced")
	vr.Assert(int(v.Len()) == n && int(w.Len()) == n, "size==bytes-consumed")
	vr.Assert(w.Operation == v.Operation && w.HardwareType == v.HardwareType && w.HardwareLen == v.HardwareLen && w.HardwareOpts == v.HardwareOpts, "fixed-fields-1")
	vr.Assert(w.Xid == v.Xid && w.Secs == v.Secs && w.Flags == v.Flags, "fixed-fields-2")
	vr.Assert(vr.DeepEq(w.ClientIP, v.ClientIP) && vr.DeepEq(w.YourIP, v.YourIP) && vr.DeepEq(w.ServerIP, v.ServerIP) && vr.DeepEq(w.GatewayIP, v.GatewayIP), "addresses")
	vr.Assert(vr.DeepEq(w.ClientHWAddr, v.ClientHWAddr), "chaddr")
	vr.Assert(vr.DeepEq(w.ServerName, v.ServerName) && vr.DeepEq(w.File, v.File), "sname/file")
	// options: everything before END, in order
	k := 0
	for _, o := range v.Options {
		if o.OptionType() == DHCP_OPT_END {
			break
		}
		vr.Assert(k < len(w.Options), "option-present")
		vr.Assert(w.Options[k].OptionType() == o.OptionType(), "option-tag")
		vr.Assert(vr.BytesEq(w.Options[k].Bytes(), o.Bytes()), "option-data")
		k++
	}
	vr.Assert(k == len(w.Options), "no-extra-options")
}

// LLDP TLVs (each alone): Read then Write gives back type, length, subtype and data.
func VerifC09_LLDPTLVs() {
	n := vr.IntRange("datalen", 0, 4)
	c := &ChassisTLV{Type: vr.U8("ctype"), Length: uint16(n), Subtype: vr.U8("csub"), Data: vr.Bytes("cdata", n)}
	vr.Assume(c.Type <= 127)
	buf := make([]byte, 16)
	k, err := c.Read(buf)
	vr.Assert(err == nil, "chassis-read-ok")
	vr.Assert(k == 3+n, "chassis-size")
	c2 := new(ChassisTLV)
	_, err = c2.Write(buf[:k])
	vr.Assert(err == nil, "chassis-decode-ok")
	vr.Assert(vr.DeepEq(c, c2), "chassis-fields-equal")

	p := &PortTLV{Type: vr.U8("ptype"), Length: uint16(n), Subtype: vr.U8("psub"), Data: vr.Bytes("pdata", n)}
	vr.Assume(p.Type <= 127)
	k, err = p.Read(buf)
	vr.Assert(err == nil, "port-read-ok")
	p2 := new(PortTLV)
	_, err = p2.Write(buf[:k])
	vr.Assert(err == nil, "port-decode-ok")
	vr.Assert(vr.DeepEq(p, p2), "port-fields-equal")

	t := &TTLTLV{Type: vr.U8("ttype"), Length: vr.U16("tlen"), Seconds: vr.U16("secs")}
	vr.Assume(t.Type <= 127)
	vr.Assume(t.Length <= 511)
	k, err = t.Read(buf)
	vr.Assert(err == nil, "ttl-read-ok")
	vr.Assert(k == 4, "ttl-size")
	t2 := new(TTLTLV)
	_, err = t2.Write(buf[:k])
	vr.Assert(err == nil, "ttl-decode-ok")
	vr.Assert(vr.DeepEq(t, t2), "ttl-fields-equal")
}
