//go:build verif

package protocol

import (
	vr "github.com/contiv/libOpenflow/verifrt"
)

// C08 — every packet-header decoder is total on arbitrary bytes.
// Monitors armed by the engine: panic (every implicit runtime check is a query), progress
// (a loop header in a library function visited more than N+2 times), allocation (a single
// make larger than 64 KiB + 16 N bytes, element count × element size).

func c08input(nmaxQuick, nmaxThorough int) []byte {
	nmax := nmaxQuick
	if vr.Thorough() {
		nmax = nmaxThorough
	}
	n := vr.IntRange("n", 0, nmax)
	data := vr.Bytes("data", n)
	vr.LoopBound(n + 2)
	vr.AllocLimit(65536 + 16*n)
	return data
}

func VerifC08_VLAN() {
	data := c08input(8, 12)
	_ = new(VLAN).UnmarshalBinary(data)
}

func VerifC08_ARP() {
	data := c08input(40, 64)
	_ = new(ARP).UnmarshalBinary(data)
}

func VerifC08_ICMP() {
	data := c08input(12, 24)
	_ = NewICMP().UnmarshalBinary(data)
	_ = new(ICMP).UnmarshalBinary(data)
}

func VerifC08_UDP() {
	data := c08input(16, 24)
	_ = NewUDP().UnmarshalBinary(data)
	_ = new(UDP).UnmarshalBinary(data)
}

func VerifC08_TCP() {
	data := c08input(28, 40)
	_ = NewTCP().UnmarshalBinary(data)
	_ = new(TCP).UnmarshalBinary(data)
}

func VerifC08_IPv4() {
	data := c08input(40, 72)
	_ = NewIPv4().UnmarshalBinary(data)
}

func VerifC08_IPv4Zero() {
	data := c08input(32, 64)
	_ = new(IPv4).UnmarshalBinary(data)
}

func VerifC08_IPv6() {
	data := c08input(56, 60)
	_ = new(IPv6).UnmarshalBinary(data)
}

func VerifC08_Option() {
	data := c08input(12, 24)
	_ = new(Option).UnmarshalBinary(data)
}

func VerifC08_HopByHop() {
	data := c08input(17, 25)
	_ = NewHopByHopHeader().UnmarshalBinary(data)
}

// a hop-by-hop header long enough to hold an option of maximal length (HEL 31..33: 256..272
// bytes): everything is Pad1 (zero bytes) except one option header with symbolic type and length
// at the start, after another option, or near the end
func VerifC08_HopByHopLongOption() {
	hel := 31 + vr.Choice("hel", 3)
	n := 8 * (hel + 1)
	data := make([]byte, n)
	data[0], data[1] = vr.U8("next"), uint8(hel)
	at := []int{2, 4, n - 4}[vr.Choice("at", 3)]
	data[at], data[at+1] = vr.U8("opttype"), vr.U8("optlen")
	vr.LoopBound(n + 2)
	vr.AllocLimit(65536 + 16*n)
	_ = NewHopByHopHeader().UnmarshalBinary(data)
}

func VerifC08_Routing() {
	data := c08input(26, 48)
	_ = NewRoutingHeader().UnmarshalBinary(data)
}

func VerifC08_Fragment() {
	data := c08input(12, 16)
	_ = NewFragmentHeader().UnmarshalBinary(data)
}

func VerifC08_Ethernet() {
	data := c08input(48, 72)
	_ = NewEthernet().UnmarshalBinary(data)
}

func VerifC08_EthernetZero() {
	data := c08input(40, 64)
	_ = new(Ethernet).UnmarshalBinary(data)
}

func VerifC08_IGMPv1or2() {
	data := c08input(12, 16)
	_ = new(IGMPv1or2).UnmarshalBinary(data)
}

func VerifC08_IGMPv3Query() {
	data := c08input(28, 40)
	_ = new(IGMPv3Query).UnmarshalBinary(data)
}

func VerifC08_IGMPv3GroupRecord() {
	data := c08input(24, 40)
	_ = new(IGMPv3GroupRecord).UnmarshalBinary(data)
}

func VerifC08_IGMPv3Report() {
	data := c08input(32, 48)
	_ = new(IGMPv3MembershipReport).UnmarshalBinary(data)
}

func VerifC08_DHCPOptions() {
	data := c08input(10, 14)
	_, _ = DHCPParseOptions(data)
}

// DHCP.Write: 236-byte fixed part + magic + a symbolic option region. The fixed part is symbolic
// too (hardware length included); the magic cookie is forced so the option parser is reached,
// and a second harness leaves it free.
func VerifC08_DHCP() {
	extra := 6
	if vr.Thorough() {
		extra = 10
	}
	n := vr.IntRange("n", 236, 240+extra)
	data := vr.Bytes("data", n)
	vr.LoopBound(n + 2)
	vr.AllocLimit(65536 + 16*n)
	if n >= 240 && vr.Bool("magic-ok") {
		vr.Assume(vr.And(vr.And(data[236] == 0x63, data[237] == 0x82), vr.And(data[238] == 0x53, data[239] == 0x63)))
	}
	d := new(DHCP)
	_, _ = d.Write(data)
}

func VerifC08_DHCPShort() {
	n := vr.IntRange("n", 0, 8)
	data := vr.Bytes("data", n)
	d := new(DHCP)
	_, _ = d.Write(data)
}

func VerifC08_LLDPChassis() {
	data := c08input(4, 6)
	_, _ = new(ChassisTLV).Write(data)
}

func VerifC08_LLDPPort() {
	data := c08input(4, 6)
	_, _ = new(PortTLV).Write(data)
}

func VerifC08_LLDPTTL() {
	data := c08input(6, 8)
	_, _ = new(TTLTLV).Write(data)
}

func VerifC08_LLDP() {
	data := c08input(4, 6)
	_, _ = new(LLDP).Write(data)
}
