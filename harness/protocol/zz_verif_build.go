//go:build verif

package protocol

// Builders for packet headers with symbolic field values, shared by C06 / C09 / C13.
// Every value is well-formed in the sense of C09's statement: sub-byte fields within their
// width, length and count fields consistent with the parts present.

import (
	"net"

	"github.com/contiv/libOpenflow/util"
	vr "github.com/contiv/libOpenflow/verifrt"
)

func symMAC(name string) net.HardwareAddr { return net.HardwareAddr(vr.Bytes(name, 6)) }
func symIP4(name string) net.IP           { return net.IP(vr.Bytes(name, 4)) }
func symIP16(name string) net.IP          { return net.IP(vr.Bytes(name, 16)) }

func bldPayload(name string, max int) *util.Buffer {
	return util.NewBuffer(vr.Bytes(name, vr.IntRange(name+"len", 0, max)))
}

func bldVLAN() *VLAN {
	v := NewVLAN()
	v.PCP, v.DEI, v.VID = vr.U8("pcp"), vr.U8("dei"), vr.U16("vid")
	vr.Assume(v.PCP <= 7)
	vr.Assume(v.DEI <= 1)
	vr.Assume(v.VID <= 0xfff)
	return v
}

func bldARP() *ARP {
	a, _ := NewARP(Type_Request)
	a.HWType, a.ProtoType, a.Operation = vr.U16("hwtype"), vr.U16("prototype"), vr.U16("oper")
	copy(a.HWSrc, vr.Bytes("hwsrc", 6))
	copy(a.HWDst, vr.Bytes("hwdst", 6))
	copy(a.IPSrc, vr.Bytes("ipsrc", 4))
	copy(a.IPDst, vr.Bytes("ipdst", 4))
	return a
}

func bldICMP(max int) *ICMP {
	i := NewICMP()
	i.Type, i.Code, i.Checksum = vr.U8("icmptype"), vr.U8("icmpcode"), vr.U16("icmpcsum")
	i.Data = vr.Bytes("icmpdata", vr.IntRange("icmplen", 0, max))
	return i
}

func bldUDP(max int) *UDP {
	u := NewUDP()
	u.PortSrc, u.PortDst, u.Length, u.Checksum = vr.U16("sport"), vr.U16("dport"), vr.U16("udplen"), vr.U16("udpcsum")
	u.Data = vr.Bytes("udpdata", vr.IntRange("udpdatalen", 0, max))
	return u
}

func bldTCP(max int) *TCP {
	t := NewTCP()
	t.PortSrc, t.PortDst, t.SeqNum, t.AckNum = vr.U16("sport"), vr.U16("dport"), vr.U32("seq"), vr.U32("ack")
	t.HdrLen, t.Code, t.WinSize, t.Checksum, t.UrgFlag = vr.U8("hdrlen"), vr.U8("code"), vr.U16("win"), vr.U16("tcpcsum"), vr.U16("urg")
	vr.Assume(t.HdrLen <= 15)
	vr.Assume(t.Code <= 0x3f)
	t.Data = vr.Bytes("tcpdata", vr.IntRange("tcpdatalen", 0, max))
	return t
}

// payload kinds for IPv4 / IPv6: 0 raw buffer, 1 ICMP, 2 UDP, 3 none (IPv4 only)
func bldIPPayload(kind int, max int, icmpProto uint8) (util.Message, uint8) {
	switch kind {
	case 1:
		return bldICMP(max), icmpProto
	case 2:
		return bldUDP(max), Type_UDP
	}
	p := vr.U8("proto")
	vr.Assume(p != icmpProto)
	vr.Assume(p != Type_UDP)
	vr.Assume(p != Type_HBH)
	vr.Assume(p != Type_Routing)
	vr.Assume(p != Type_Fragment)
	return bldPayload("raw", max), p
}

func bldIPv4(payloadKind int, max int) *IPv4 {
	ip := NewIPv4()
	ip.Version, ip.DSCP, ip.ECN = vr.U8("version"), vr.U8("dscp"), vr.U8("ecn")
	vr.Assume(ip.Version <= 15)
	vr.Assume(ip.DSCP <= 63)
	vr.Assume(ip.ECN <= 3)
	ip.Length, ip.Id, ip.Flags, ip.FragmentOffset = vr.U16("totlen"), vr.U16("id"), vr.U16("flags"), vr.U16("fragoff")
	vr.Assume(ip.Flags <= 7)
	vr.Assume(ip.FragmentOffset <= 0x1fff)
	ip.TTL, ip.Checksum = vr.U8("ttl"), vr.U16("csum")
	copy(ip.NWSrc, vr.Bytes("src", 4))
	copy(ip.NWDst, vr.Bytes("dst", 4))
	optWords := vr.IntRange("optwords", 0, 2)
	ip.IHL = uint8(5 + optWords)
	if optWords > 0 {
		ip.Options = *util.NewBuffer(vr.Bytes("options", 4*optWords))
	}
	if payloadKind == 3 {
		ip.Protocol = vr.U8("proto")
		return ip
	}
	ip.Data, ip.Protocol = bldIPPayload(payloadKind, max, Type_ICMP)
	return ip
}

func bldOption(maxData int) *Option {
	n := vr.IntRange("optlen", 0, maxData+2)
	if n > maxData {
		n = 254 + (n - maxData - 1) // the two largest lengths an 8-bit length field can hold
	}
	return &Option{Type: vr.U8("opttype"), Length: uint8(n), Data: vr.Bytes("optdata", n)}
}

// header-extension lengths exercised: the two smallest, the pair around the 8-bit product wrap
// (8*(31+1) = 256) and the largest
var helValues = []int{0, 1, 31, 32, 255}

func pickHEL(name string, big bool) int {
	if !big {
		return vr.IntRange(name, 0, 1)
	}
	n := 4
	if vr.Thorough() {
		n = 5
	}
	return helValues[vr.Choice(name, n)]
}

// omittedOptionData: bldHopByHop may build a padding option with Length set and Data nil (the
// encoder zero-fills it). Only the sizing / embedding harnesses (C06) turn this on: such a value
// does not decode to itself, so it is no subject for the round-trip properties.
var omittedOptionData = false

// bldHopByHop: options that exactly fill 8*(HEL+1)-2 bytes (as many maximal options as needed,
// optionally one small leading option, the last one sized to fit).
func bldHopByHop(next uint8, big bool) *HopByHopHeader {
	h := NewHopByHopHeader()
	h.NextHeader = next
	hel := pickHEL("hel", big)
	h.HEL = uint8(hel)
	room := 8*(hel+1) - 2
	if vr.Bool("leadingoption") {
		n1 := vr.IntRange("opt1len", 0, 2)
		o := &Option{Type: vr.U8("opttype"), Length: uint8(n1), Data: vr.Bytes("optdata", n1)}
		if n1 > 0 && omittedOptionData && vr.Bool("opt1-data-omitted") {
			o.Data = nil // a padding option given by its length alone: the encoder zero-fills it
		}
		h.Options = append(h.Options, o)
		room -= n1 + 2
	}
	for room > 257 {
		h.Options = append(h.Options, &Option{Type: vr.U8("opttype"), Length: 253, Data: vr.Bytes("optdata", 253)})
		room -= 255
	}
	h.Options = append(h.Options, &Option{Type: vr.U8("opttype"), Length: uint8(room - 2), Data: vr.Bytes("optdata", room-2)})
	return h
}

func bldRouting(next uint8, big bool) *RoutingHeader {
	h := NewRoutingHeader()
	h.NextHeader = next
	hel := pickHEL("rhel", big)
	h.HEL = uint8(hel)
	h.RoutingType, h.SegmentsLeft = vr.U8("rtype"), vr.U8("segleft")
	h.Data = util.NewBuffer(vr.Bytes("rdata", 8*(hel+1)-4))
	return h
}

func bldFragment(next uint8) *FragmentHeader {
	h := NewFragmentHeader()
	h.NextHeader = next
	h.Reserved, h.FragmentOffset, h.MoreFragments, h.Identification = vr.U8("fres"), vr.U16("ffragoff"), vr.Bool("more"), vr.U32("fid")
	vr.Assume(h.FragmentOffset <= 0x1fff)
	return h
}

// extension-header chains (each header kind at most once, as the IPv6 struct holds one of each):
// 0 none, 1 H, 2 R, 3 F, 4 H R, 5 H F, 6 R F, 7 H R F, 8 R H, 9 F H, 10 F R, 11 R H F ...
var ipv6Chains = [][]uint8{
	{}, {Type_HBH}, {Type_Routing}, {Type_Fragment},
	{Type_HBH, Type_Routing}, {Type_HBH, Type_Fragment}, {Type_Routing, Type_Fragment},
	{Type_HBH, Type_Routing, Type_Fragment},
	{Type_Fragment, Type_Routing}, {Type_Routing, Type_HBH}, // the quick tier takes the first ten
	{Type_Fragment, Type_HBH},
	{Type_Routing, Type_HBH, Type_Fragment}, {Type_Fragment, Type_Routing, Type_HBH},
	{Type_Routing, Type_Fragment, Type_HBH}, {Type_HBH, Type_Fragment, Type_Routing}, {Type_Fragment, Type_HBH, Type_Routing},
}

func bldIPv6(chain int, payloadKind int, max int) *IPv6 {
	ip := &IPv6{NWSrc: symIP16("src"), NWDst: symIP16("dst")}
	ip.Version, ip.TrafficClass, ip.FlowLabel = vr.U8("version"), vr.U8("tclass"), vr.U32("flow")
	vr.Assume(ip.Version <= 15)
	vr.Assume(ip.FlowLabel <= 0xfffff)
	ip.Length, ip.HopLimit = vr.U16("paylen"), vr.U8("hoplimit")
	var last uint8
	ip.Data, last = bldIPPayload(payloadKind, max, Type_IPv6ICMP)
	hs := ipv6Chains[chain]
	// next-header of element i is the kind of element i+1; the last one names the payload
	for i := len(hs) - 1; i >= 0; i-- {
		next := last
		if i+1 < len(hs) {
			next = hs[i+1]
		}
		switch hs[i] {
		case Type_HBH:
			ip.HbhHeader = bldHopByHop(next, false)
		case Type_Routing:
			ip.RoutingHeader = bldRouting(next, false)
		case Type_Fragment:
			ip.FragmentHeader = bldFragment(next)
		}
	}
	if len(hs) > 0 {
		ip.NextHeader = hs[0]
	} else {
		ip.NextHeader = last
	}
	return ip
}

// Ethernet payload kinds: 0 raw, 1 ARP, 2 IPv4(+UDP/ICMP/raw), 3 IPv6 (no ext headers), 4 none
func bldEthernet(payloadKind int, max int) *Ethernet {
	e := NewEthernet()
	copy(e.HWDst, vr.Bytes("hwdst", 6))
	copy(e.HWSrc, vr.Bytes("hwsrc", 6))
	if vr.Bool("tagged") {
		e.VLANID = *bldVLAN()
	}
	switch payloadKind {
	case 1:
		e.Ethertype, e.Data = ARP_MSG, bldARP()
	case 2:
		e.Ethertype, e.Data = IPv4_MSG, bldIPv4(vr.Choice("ip4payload", 3), max)
	case 3:
		e.Ethertype, e.Data = IPv6_MSG, bldIPv6(0, vr.Choice("ip6payload", 3), max)
	case 4:
		e.Ethertype = vr.U16("ethertype")
	default:
		e.Ethertype = vr.U16("ethertype")
		vr.Assume(e.Ethertype != IPv4_MSG)
		vr.Assume(e.Ethertype != IPv6_MSG)
		vr.Assume(e.Ethertype != ARP_MSG)
		vr.Assume(e.Ethertype != VLAN_MSG)
		e.Data = bldPayload("raw", max)
	}
	return e
}

func bldSources(name string, max int) []net.IP {
	k := vr.IntRange(name, 0, max)
	var s []net.IP
	for i := 0; i < k; i++ {
		s = append(s, symIP4("source"))
	}
	return s
}

func bldIGMPv1or2() *IGMPv1or2 {
	var p *IGMPv1or2
	switch vr.Choice("igmpkind", 5) {
	case 0:
		p = NewIGMPv1Query(symIP4("group"))
	case 1:
		p = NewIGMPv1Report(symIP4("group"))
	case 2:
		p = NewIGMPv2Query(symIP4("group"), vr.U8("maxresp"))
	case 3:
		p = NewIGMPv2Report(symIP4("group"))
	default:
		p = NewIGMPv2Leave(symIP4("group"))
	}
	p.Checksum = vr.U16("csum")
	return p
}

func bldIGMPv3Query(maxSrc int) *IGMPv3Query {
	q := NewIGMPv3Query(symIP4("group"), vr.U8("maxresp"), vr.U8("qqic"), bldSources("nsrc", maxSrc))
	q.Checksum, q.SuppressRouterProcessing, q.RobustnessValue = vr.U16("csum"), vr.Bool("sflag"), vr.U8("qrv")
	vr.Assume(q.RobustnessValue <= 7)
	return q
}

func bldGroupRecord(maxSrc int) IGMPv3GroupRecord {
	r := NewGroupRecord(vr.U8("rectype"), symIP4("mcast"), bldSources("nsrc", maxSrc))
	// auxiliary words: none, one, and the pair around the 8-bit product wrap (4*64 = 256)
	aux := []int{0, 1, 63, 64}[vr.Choice("auxwords", 4)]
	r.AuxDataLen = uint8(aux)
	for i := 0; i < aux; i++ {
		r.AuxData = append(r.AuxData, vr.U32("aux"))
	}
	return r
}

func bldIGMPv3Report(maxRec, maxSrc int) *IGMPv3MembershipReport {
	k := vr.IntRange("nrec", 0, maxRec)
	var recs []IGMPv3GroupRecord
	for i := 0; i < k; i++ {
		recs = append(recs, bldGroupRecord(maxSrc))
	}
	r := NewIGMPv3Report(recs)
	r.Checksum = vr.U16("csum")
	return r
}

func bldDHCP(maxOpts int) *DHCP {
	d, _ := NewDHCP(vr.U32("xid"), DHCPOperation(vr.U8("op")), DHCP_HW_ETHERNET)
	hw := vr.Bytes("chaddr", 6)
	d.HardwareLen, d.ClientHWAddr = 6, hw
	d.HardwareOpts, d.Secs, d.Flags = vr.U8("hops"), vr.U16("secs"), vr.U16("flags")
	copy(d.ClientIP, vr.Bytes("ciaddr", 4))
	copy(d.YourIP, vr.Bytes("yiaddr", 4))
	copy(d.ServerIP, vr.Bytes("siaddr", 4))
	copy(d.GatewayIP, vr.Bytes("giaddr", 4))
	copy(d.ServerName[:], vr.Bytes("sname", 4))
	copy(d.File[:], vr.Bytes("file", 4))
	k := vr.IntRange("nopts", 0, maxOpts)
	for i := 0; i < k; i++ {
		switch vr.Choice("optkind", 3) {
		case 0:
			tag := vr.U8("tag")
			vr.Assume(tag != DHCP_OPT_PAD)
			vr.Assume(tag != DHCP_OPT_END)
			d.Options = append(d.Options, DHCPNewOption(tag, vr.Bytes("optdata", vr.IntRange("optlen", 0, 3))))
		case 1:
			d.Options = append(d.Options, DHCPNewOption(DHCP_OPT_PAD, nil))
		default:
			d.Options = append(d.Options, DHCPNewOption(DHCP_OPT_END, nil))
		}
	}
	return d
}
