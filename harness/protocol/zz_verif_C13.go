//go:build verif

package protocol

// C13 (packet headers): repeated Len / MarshalBinary in any order of length ≤ 3 (quick) / 4
// (thorough) agree with each other. IPv4 additionally covers the value a user gets by leaving the
// header length unset (IHL < 5), where the size function writes the receiver.

import (
	"github.com/contiv/libOpenflow/util"
	vr "github.com/contiv/libOpenflow/verifrt"
)

func c13repeat(m util.Message) {
	var firstLen uint16
	var firstBytes []byte
	haveLen, haveBytes := false, false
	n := 3
	if vr.Thorough() {
		n = 4
	}
	for i := 0; i < n; i++ {
		if vr.Choice("op", 2) == 0 {
			l := m.Len()
			if haveLen {
				vr.Assert(l == firstLen, "len-repeatable")
			}
			firstLen, haveLen = l, true
		} else {
			b, err := m.MarshalBinary()
			vr.Assert(err == nil, "marshal-ok")
			c := make([]byte, len(b))
			copy(c, b)
			if haveBytes {
				vr.Assert(len(c) == len(firstBytes), "encoding-size-repeatable")
				vr.Assert(vr.BytesEq(c, firstBytes), "encoding-repeatable")
			}
			firstBytes, haveBytes = c, true
		}
		if haveLen && haveBytes {
			vr.Assert(int(firstLen) == len(firstBytes), "len==bytes-throughout")
		}
	}
}

var c13kinds = []string{"VLAN", "ARP", "ICMP", "UDP", "TCP", "Option", "HopByHop", "Routing", "Fragment",
	"IGMPv1or2", "IGMPv3Query", "IGMPv3GroupRecord", "IGMPv3Report", "IPv4", "IPv6", "Ethernet"}

func VerifC13_Header() {
	k := vr.Choice("kind", len(c13kinds))
	vr.Tag("kind", c13kinds[k])
	var m util.Message
	switch k {
	case 0:
		m = bldVLAN()
	case 1:
		m = bldARP()
	case 2:
		m = bldICMP(4)
	case 3:
		m = bldUDP(4)
	case 4:
		m = bldTCP(4)
	case 5:
		m = bldOption(4)
	case 6:
		m = bldHopByHop(vr.U8("next"), true)
	case 7:
		m = bldRouting(vr.U8("next"), true)
	case 8:
		m = bldFragment(vr.U8("next"))
	case 9:
		m = bldIGMPv1or2()
	case 10:
		m = bldIGMPv3Query(2)
	case 11:
		r := bldGroupRecord(2)
		m = &r
	case 12:
		m = bldIGMPv3Report(2, 1)
	case 13:
		m = bldIPv4(vr.Choice("payload", 4), 4)
	case 14:
		m = bldIPv6(vr.Choice("chain", 10), vr.Choice("payload", 3), 4)
	default:
		m = bldEthernet(vr.Choice("payload", 5), 4)
	}
	c13repeat(m)
}

// IPv4 with the header length left unset (0..4), with and without options: Len() stores 5 into
// the receiver on first use. The payload is at least as long as the options so that the encoder
// (which sizes by IHL only) stays inside its buffer.
func VerifC13_IPv4UnsetIHL() {
	ip := NewIPv4()
	ip.IHL = uint8(vr.IntRange("ihl", 0, 4))
	optWords := vr.IntRange("optwords", 0, 2)
	if optWords > 0 {
		ip.Options = *util.NewBuffer(vr.Bytes("options", 4*optWords))
	}
	ip.Protocol = vr.U8("proto")
	if vr.Bool("payload") {
		ip.Data = util.NewBuffer(vr.Bytes("raw", 4*optWords+vr.IntRange("extra", 0, 2)))
	}
	c13repeat(ip)
}

// a hop-by-hop header whose options do not fill the room its length field announces (the encoder
// leaves the rest zero, i.e. Pad1), alone and inside an IPv6 packet
func VerifC13_HopByHopUnderfilled() {
	h := NewHopByHopHeader()
	h.NextHeader = vr.U8("next")
	h.HEL = uint8(vr.IntRange("hel", 0, 2))
	room := 8*(int(h.HEL)+1) - 2
	n1 := vr.IntRange("opt1len", 0, 4)
	vr.Assume(n1+2 <= room)
	h.Options = append(h.Options, &Option{Type: vr.U8("opttype"), Length: uint8(n1), Data: vr.Bytes("optdata", n1)})
	if vr.Bool("in-ipv6") {
		ip := bldIPv6(0, 0, 0)
		h.NextHeader, ip.NextHeader = ip.NextHeader, Type_HBH
		ip.HbhHeader = h
		c13repeat(ip)
	} else {
		c13repeat(h)
	}
}
