//go:build verif

package protocol

// C06 (packet headers): reported size == encoded size; containers (Ethernet, IPv4, IPv6,
// hop-by-hop header, IGMPv3 report, DHCP) embed their children whole, in order.
// Bounds: payload ≤ 8 B (quick) / 16 B (thorough), ≤ 2 options / sources / records (3 thorough).

import (
	"github.com/contiv/libOpenflow/util"
	vr "github.com/contiv/libOpenflow/verifrt"
)

func c06max() int {
	if vr.Thorough() {
		return 16
	}
	return 8
}

func c06n() int {
	if vr.Thorough() {
		return 3
	}
	return 2
}

func c06sized(m util.Message) []byte {
	b, err := m.MarshalBinary()
	vr.Assert(err == nil, "marshal-ok")
	vr.Assert(int(m.Len()) == len(b), "len==bytes")
	return b
}

func c06at(b []byte, off int, kid []byte, label string) int {
	vr.Assert(off+len(kid) <= len(b), label+"-fits")
	vr.Assert(vr.BytesEq(b[off:off+len(kid)], kid), label+"-intact")
	return off + len(kid)
}

func VerifC06_VLAN()     { c06sized(bldVLAN()) }
func VerifC06_ICMP()     { c06sized(bldICMP(c06max())) }
func VerifC06_UDP()      { c06sized(bldUDP(c06max())) }
func VerifC06_TCP()      { c06sized(bldTCP(c06max())) }
func VerifC06_Option()   { c06sized(bldOption(c06max())) }
func VerifC06_Fragment() { c06sized(bldFragment(vr.U8("next"))) }
func VerifC06_IGMPv1or2() {
	c06sized(bldIGMPv1or2())
}

// ARP: the address lengths are wire fields; every value a decoder can produce must re-encode.
// The lengths index slices, so each value is its own path: quick takes both from a list of
// boundary values (9x9 pairs, including every pair whose doubled sum crosses 256); thorough
// takes one length over all 256 values against each listed value of the other.
var arpLens = []int{0, 1, 6, 16, 63, 64, 127, 128, 255}

func VerifC06_ARP() {
	a := bldARP()
	if vr.Thorough() && vr.Bool("full-hlen") {
		a.HWLength = uint8(vr.IntRange("hlen", 0, 255))
		a.ProtoLength = uint8(arpLens[vr.Choice("plen", len(arpLens))])
	} else if vr.Thorough() {
		a.HWLength = uint8(arpLens[vr.Choice("hlen", len(arpLens))])
		a.ProtoLength = uint8(vr.IntRange("plen", 0, 255))
	} else {
		a.HWLength = uint8(arpLens[vr.Choice("hlen", len(arpLens))])
		a.ProtoLength = uint8(arpLens[vr.Choice("plen", len(arpLens))])
	}
	c06sized(a)
}

func VerifC06_HopByHop() {
	omittedOptionData = true
	h := bldHopByHop(vr.U8("next"), true)
	omittedOptionData = false
	var kids [][]byte
	for _, o := range h.Options {
		ob, _ := o.MarshalBinary()
		kids = append(kids, ob)
	}
	b := c06sized(h)
	off := 2
	for _, k := range kids {
		off = c06at(b, off, k, "option")
	}
	vr.Assert(off == len(b), "options-fill-header")
}

func VerifC06_Routing() {
	h := bldRouting(vr.U8("next"), true)
	b := c06sized(h)
	c06at(b, 4, h.Data.Bytes(), "routing-data")
}

func VerifC06_IPv4() {
	ip := bldIPv4(vr.Choice("payload", 4), c06max())
	opts := ip.Options.Bytes()
	var pl []byte
	if ip.Data != nil {
		pl, _ = ip.Data.MarshalBinary()
	}
	b := c06sized(ip)
	off := c06at(b, 20, opts, "options")
	off = c06at(b, off, pl, "payload")
	vr.Assert(off == len(b), "children-fill-packet")
}

func VerifC06_IPv6() {
	nchains := 10
	if vr.Thorough() {
		nchains = len(ipv6Chains)
	}
	chain := vr.Choice("chain", nchains)
	ip := bldIPv6(chain, vr.Choice("payload", 3), c06max())
	var kids [][]byte
	for _, t := range ipv6Chains[chain] {
		var hb []byte
		switch t {
		case Type_HBH:
			hb, _ = ip.HbhHeader.MarshalBinary()
		case Type_Routing:
			hb, _ = ip.RoutingHeader.MarshalBinary()
		case Type_Fragment:
			hb, _ = ip.FragmentHeader.MarshalBinary()
		}
		kids = append(kids, hb)
	}
	pl, _ := ip.Data.MarshalBinary()
	kids = append(kids, pl)
	b := c06sized(ip)
	off := 40
	for _, k := range kids {
		off = c06at(b, off, k, "child")
	}
	vr.Assert(off == len(b), "children-fill-packet")
}

func VerifC06_Ethernet() {
	e := bldEthernet(vr.Choice("payload", 5), c06max())
	var pl []byte
	if e.Data != nil {
		pl, _ = e.Data.MarshalBinary()
	}
	b := c06sized(e)
	off := 14
	if e.VLANID.VID != 0 {
		vb, _ := e.VLANID.MarshalBinary()
		c06at(b, 12, vb, "vlan-tag")
		off = 18
	}
	off = c06at(b, off, pl, "payload")
	vr.Assert(off == len(b), "children-fill-frame")
}

func VerifC06_IGMPv3Query() {
	q := bldIGMPv3Query(c06n())
	b := c06sized(q)
	off := 12
	for _, s := range q.SourceAddresses {
		off = c06at(b, off, s, "source")
	}
	vr.Assert(off == len(b), "sources-fill-message")
}

func VerifC06_IGMPv3GroupRecord() {
	r := bldGroupRecord(c06n())
	b := c06sized(&r)
	off := 8
	for _, s := range r.SourceAddresses {
		off = c06at(b, off, s, "source")
	}
	for _, w := range r.AuxData {
		vr.Assert(off+4 <= len(b), "aux-fits")
		vr.Assert(uint32(b[off])<<24|uint32(b[off+1])<<16|uint32(b[off+2])<<8|uint32(b[off+3]) == w, "aux-intact")
		off += 4
	}
	vr.Assert(off == len(b), "sources+aux-fill-record")
}

func VerifC06_IGMPv3Report() {
	r := bldIGMPv3Report(c06n(), 1)
	var kids [][]byte
	for i := range r.GroupRecords {
		rb, _ := r.GroupRecords[i].MarshalBinary()
		kids = append(kids, rb)
	}
	b := c06sized(r)
	off := 8
	for _, k := range kids {
		off = c06at(b, off, k, "record")
	}
	vr.Assert(off == len(b), "records-fill-report")
}

// DHCP: Len() versus the bytes Read produces into a large enough buffer; options embedded in order.
func VerifC06_DHCP() {
	d := bldDHCP(c06n())
	var kids [][]byte
	sawEnd := false
	for _, o := range d.Options {
		ob, err := DHCPMarshalOption(o)
		vr.Assert(err == nil, "option-marshal-ok")
		kids = append(kids, ob)
		if o.OptionType() == DHCP_OPT_END {
			sawEnd = true
		}
	}
	buf := make([]byte, 400)
	n, err := d.Read(buf)
	vr.Assert(err == nil, "read-ok")
	vr.Assert(int(d.Len()) == n, "len==bytes")
	off := 240
	for _, k := range kids {
		off = c06at(buf[:n], off, k, "option")
	}
	if !sawEnd {
		vr.Assert(off+1 == n, "end-option-appended")
		vr.Assert(buf[off] == DHCP_OPT_END, "end-option-value")
	} else {
		vr.Assert(off == n, "options-fill-message")
	}
}
