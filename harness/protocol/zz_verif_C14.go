//go:build verif

package protocol

// C14 (packet headers): the shared-state monitor sweep over every header kind — build, size,
// encode, decode — and over the DHCP option writer with PAD / END / ordinary options.

import (
	"github.com/contiv/libOpenflow/util"
	vr "github.com/contiv/libOpenflow/verifrt"
)

func VerifC14_SweepHeaders() {
	k := vr.Choice("kind", len(c13kinds))
	var m, w util.Message
	switch k {
	case 0:
		m, w = bldVLAN(), new(VLAN)
	case 1:
		m, w = bldARP(), new(ARP)
	case 2:
		m, w = bldICMP(4), NewICMP()
	case 3:
		m, w = bldUDP(4), NewUDP()
	case 4:
		m, w = bldTCP(4), NewTCP()
	case 5:
		m, w = bldOption(4), new(Option)
	case 6:
		m, w = bldHopByHop(vr.U8("next"), false), NewHopByHopHeader()
	case 7:
		m, w = bldRouting(vr.U8("next"), false), NewRoutingHeader()
	case 8:
		m, w = bldFragment(vr.U8("next")), NewFragmentHeader()
	case 9:
		m, w = bldIGMPv1or2(), new(IGMPv1or2)
	case 10:
		m, w = bldIGMPv3Query(2), new(IGMPv3Query)
	case 11:
		r := bldGroupRecord(2)
		m, w = &r, new(IGMPv3GroupRecord)
	case 12:
		m, w = bldIGMPv3Report(2, 1), new(IGMPv3MembershipReport)
	case 13:
		m, w = bldIPv4(vr.Choice("payload", 3), 4), NewIPv4()
	case 14:
		m, w = bldIPv6(vr.Choice("chain", 10), vr.Choice("payload", 3), 4), new(IPv6)
	default:
		m, w = bldEthernet(vr.Choice("payload", 4), 4), NewEthernet()
	}
	_ = m.Len()
	b, err := m.MarshalBinary()
	if err == nil {
		_ = w.UnmarshalBinary(b)
	}
}

func VerifC14_SweepDHCP() {
	d := bldDHCP(3)
	buf := make([]byte, 400)
	n, err := d.Read(buf)
	if err == nil {
		_, _ = new(DHCP).Write(buf[:n])
	}
	_, _ = DHCPMarshalOption(DHCPNewOption(DHCP_OPT_PAD, nil))
	_, _ = DHCPMarshalOption(DHCPNewOption(DHCP_OPT_END, nil))
	o, _ := DHCPIP4Option(vr.U8("tag"), symIP4("ip"))
	if o != nil {
		_, _ = DHCPMarshalOption(o)
	}
}

// cross-talk through hidden state (pooled or cached encode buffers): a value's bytes are the same
// whatever other values were processed since — including an encode of another value that was
// cut short (destination smaller than the message) or failed (an option too long to encode).
func VerifC14_CrossTalkDHCP() {
	d := bldDHCP(1)
	first := make([]byte, 400)
	n1, err1 := d.Read(first)
	other := bldDHCP(1)
	switch vr.Choice("between", 4) {
	case 0:
		vr.Tag("between", "whole-encode")
		_, _ = other.Read(make([]byte, 400))
	case 1:
		vr.Tag("between", "encode-into-short-destination")
		_, _ = other.Read(make([]byte, []int{0, 1, 236, 240}[vr.Choice("short", 4)]))
	case 2:
		vr.Tag("between", "encode-fails-on-long-option")
		other.Options = append([]DHCPOption{DHCPNewOption(53, make([]byte, 254))}, other.Options...)
		_, _ = other.Read(make([]byte, 600))
	default:
		vr.Tag("between", "decode")
		_, _ = new(DHCP).Write(first[:n1])
	}
	second := make([]byte, 400)
	n2, err2 := d.Read(second)
	vr.Assert(n1 == n2 && (err1 == nil) == (err2 == nil), "same-size-and-outcome-after-other-values")
	vr.Assert(vr.BytesEq(first, second), "same-bytes-after-other-values")
}
