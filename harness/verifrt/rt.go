//go:build verif

// Package verifrt is the harness runtime. Under the symbolic engine (symgo) every exported
// function here is intercepted and its body ignored; compiled natively the functions read their
// values from a replay case, so the very same harness source replays a solver model against the
// real, natively compiled library.
package verifrt

import (
	"bytes"
	"encoding/json"
	"fmt"
	"math/big"
	"net"
	"os"
	"reflect"
	"runtime"
	"strings"
)

// Case is one replay case (a solver model or a differential-validation valuation).
type Case struct {
	Harness  string            `json:"harness"`
	Values   map[string]string `json:"values"`
	Expect   string            `json:"expect,omitempty"`
	Key      string            `json:"key,omitempty"`
	Observes []string          `json:"observes,omitempty"`
}

// Result is what a native run of a case produced.
type Result struct {
	Harness  string   `json:"harness"`
	Outcome  string   `json:"outcome"` // return | panic | assert-fail:<label> | assume-false | process-exit
	Panic    string   `json:"panic,omitempty"`
	Observes []string `json:"observes"`
	// bytes allocated between AllocLimit(n) and the end of the harness, and whether that is above n
	AllocBytes uint64 `json:"alloc_bytes,omitempty"`
	OverAlloc  bool   `json:"over_alloc,omitempty"`
}

type assumeFalse struct{}
type assertFail struct{ label string }

var cur *Case
var seq map[string]int
var observes []string

func fresh(name string) string {
	n := seq[name]
	seq[name] = n + 1
	if n == 0 {
		return name
	}
	return fmt.Sprintf("%s#%d", name, n)
}

func val(name string) *big.Int {
	if cur == nil {
		return new(big.Int)
	}
	if s, ok := cur.Values[name]; ok {
		if b, ok := new(big.Int).SetString(s, 10); ok {
			return b
		}
	}
	return new(big.Int)
}

func scalar(name string) uint64 {
	n := fresh(name)
	if concreteInputs {
		return 0xa5a5a5a5a5a5a5a5
	}
	return val(n).Uint64()
}

func U8(name string) uint8   { return uint8(scalar(name)) }
func U16(name string) uint16 { return uint16(scalar(name)) }
func U32(name string) uint32 { return uint32(scalar(name)) }
func U64(name string) uint64 { return scalar(name) }
func Int(name string) int    { return int(scalar(name)) }
func Bool(name string) bool {
	n := fresh(name)
	if concreteInputs {
		return false
	}
	return val(n).Sign() != 0
}

func IntRange(name string, lo, hi int) int {
	n := fresh(name)
	if cur != nil {
		if _, ok := cur.Values[n]; ok {
			return int(val(n).Int64())
		}
	}
	return lo
}

func Choice(name string, n int) int {
	return int(val(fresh(name)).Uint64())
}

func Bytes(name string, n int) []byte {
	nm := fresh(name)
	b := make([]byte, n)
	for i := range b {
		if concreteInputs {
			b[i] = 0xa5
		} else {
			b[i] = byte(val(fmt.Sprintf("%s[%d]", nm, i)).Uint64())
		}
	}
	return b
}

func Assume(c bool) {
	if !c {
		panic(assumeFalse{})
	}
}

func Assert(c bool, label string) {
	if !c {
		panic(assertFail{label})
	}
}

func Tag(k, v string) {}

// AssertStatic asserts a structural fact about the library's SSA (counted by the engine; natively
// there is nothing to observe): kind "go" = go statements in function `where` starting a function
// whose name contains `what`; "invoke" = interface method calls named `what` in function `where`
// ("" = anywhere in the package); "send" = channel sends in `where` to a struct field named `what`.
func AssertStatic(kind, where, what string, expected int, label string) {}

// Threads: under the engine, body is the code n concurrent goroutines run; its shared-memory
// accesses are recorded and every interleaving is encoded for the solver, which is asked whether
// two threads can return the same value (and whether two accesses race). Natively the bodies
// run one after the other and must return pairwise different values.
func Threads(n int, body func() uint32, label string) {
	seen := map[uint32]bool{}
	for i := 0; i < n; i++ {
		v := body()
		if seen[v] {
			panic(assertFail{label})
		}
		seen[v] = true
	}
}

// ThreadsIdx is Threads with the thread's index handed to the body, for threads that do
// different things.
func ThreadsIdx(n int, body func(i int) uint32, label string) {
	seen := map[uint32]bool{}
	for i := 0; i < n; i++ {
		v := body(i)
		if seen[v] {
			panic(assertFail{label})
		}
		seen[v] = true
	}
}

// Note records informational context for findings (not part of the finding key).
func Note(k, v string) {}

func Havoc(b []byte) {
	nm := fresh("havoc")
	b = b[:cap(b)]
	for i := range b {
		b[i] = byte(val(fmt.Sprintf("%s[%d]", nm, i)).Uint64())
	}
}

func BytesEq(a, b []byte) bool { return bytes.Equal(a, b) }
func And(a, b bool) bool       { return a && b }
func Or(a, b bool) bool        { return a || b }
func Implies(a, b bool) bool   { return !a || b }
func LoopBound(n int)          {}

// AllocLimit(n): no single allocation of the code that follows may exceed n bytes (engine: every
// make / append is checked). Natively the bytes allocated from here to the end of the harness
// are measured and reported (a single allocation above n implies a total above n).
func AllocLimit(n int) {
	var ms runtime.MemStats
	runtime.ReadMemStats(&ms)
	allocLimit, allocBase = uint64(n), ms.TotalAlloc
}

var allocLimit, allocBase uint64

// WorkLimit(n): the code that follows may take at most n interpreted SSA instructions (engine
// only: a budget proportional to the input size, set by the harness). A path that exceeds it is
// reported and counts as a violation only if the native run does not finish within its time limit.
func WorkLimit(n int) {}

// FatalIsViolation(true): from here on a log.Fatal in the library is a finding (natively: the
// process exits), for harnesses that script no failure the library could react to.
func FatalIsViolation(on bool) {}

func MonitorShared(on bool) {}
func Ownership(on bool)     {}
func Symbolic() bool        { return false }

// ConcreteInputs(true) makes the scalar and byte inputs that follow fixed constants (0xa5 in
// every byte, false for Bool) instead of symbolic values, until ConcreteInputs(false).
func ConcreteInputs(on bool) { concreteInputs = on }

var concreteInputs bool

// Thorough reports whether the thorough tier is running (harnesses widen their bounds).
func Thorough() bool { return cur != nil && cur.Values["__tier"] == "1" }

func Ite8(c bool, a, b uint8) uint8 {
	if c {
		return a
	}
	return b
}
func Ite16(c bool, a, b uint16) uint16 {
	if c {
		return a
	}
	return b
}
func Ite32(c bool, a, b uint32) uint32 {
	if c {
		return a
	}
	return b
}
func Ite64(c bool, a, b uint64) uint64 {
	if c {
		return a
	}
	return b
}
func IteInt(c bool, a, b int) int {
	if c {
		return a
	}
	return b
}

// NoAlias natively: no non-empty slice reachable from a (through pointers, interfaces, structs,
// arrays and slices, unexported fields included) may overlap the memory of the byte slice b.
func NoAlias(a, b interface{}, label string) {
	bv := reflect.ValueOf(b)
	if bv.Kind() != reflect.Slice || bv.Cap() == 0 {
		return
	}
	lo := bv.Pointer()
	hi := lo + uintptr(bv.Cap())*bv.Type().Elem().Size()
	if overlaps(reflect.ValueOf(a), lo, hi, 0, map[uintptr]bool{}) {
		panic(assertFail{label})
	}
}

func overlaps(v reflect.Value, lo, hi uintptr, depth int, seen map[uintptr]bool) bool {
	if !v.IsValid() || depth > 40 {
		return false
	}
	switch v.Kind() {
	case reflect.Ptr:
		if v.IsNil() || seen[v.Pointer()] {
			return false
		}
		seen[v.Pointer()] = true
		return overlaps(v.Elem(), lo, hi, depth+1, seen)
	case reflect.Interface:
		if v.IsNil() {
			return false
		}
		return overlaps(v.Elem(), lo, hi, depth+1, seen)
	case reflect.Struct:
		for i := 0; i < v.NumField(); i++ {
			if overlaps(v.Field(i), lo, hi, depth+1, seen) {
				return true
			}
		}
	case reflect.Array:
		for i := 0; i < v.Len(); i++ {
			if overlaps(v.Index(i), lo, hi, depth+1, seen) {
				return true
			}
		}
	case reflect.Slice:
		if v.Len() == 0 {
			return false
		}
		p := v.Pointer()
		if q := p + uintptr(v.Len())*v.Type().Elem().Size(); p < hi && q > lo {
			return true
		}
		switch v.Type().Elem().Kind() {
		case reflect.Ptr, reflect.Interface, reflect.Struct, reflect.Slice, reflect.Array:
			for i := 0; i < v.Len(); i++ {
				if overlaps(v.Index(i), lo, hi, depth+1, seen) {
					return true
				}
			}
		}
	}
	return false
}

func Observe(label string, v interface{}) {
	observes = append(observes, label+"="+render(reflect.ValueOf(v), 0))
}

var errType = reflect.TypeOf((*error)(nil)).Elem()

func render(v reflect.Value, depth int) string {
	if depth > 6 {
		return "..."
	}
	if !v.IsValid() {
		return "nil"
	}
	if v.Type().Implements(errType) && v.Kind() != reflect.Interface {
		if (v.Kind() == reflect.Ptr) && v.IsNil() {
			return "nil"
		}
		return "error"
	}
	switch v.Kind() {
	case reflect.Bool:
		if v.Bool() {
			return "true"
		}
		return "false"
	case reflect.Int, reflect.Int8, reflect.Int16, reflect.Int32, reflect.Int64:
		return fmt.Sprintf("%d", uint64(v.Int())&mask(v.Type().Bits()))
	case reflect.Uint, reflect.Uint8, reflect.Uint16, reflect.Uint32, reflect.Uint64, reflect.Uintptr:
		return fmt.Sprintf("%d", v.Uint())
	case reflect.String:
		return fmt.Sprintf("%q", v.String())
	case reflect.Slice, reflect.Array:
		if v.Type().Elem().Kind() == reflect.Uint8 {
			var sb strings.Builder
			sb.WriteString("x")
			for i := 0; i < v.Len(); i++ {
				fmt.Fprintf(&sb, "%02x", v.Index(i).Uint())
			}
			return sb.String()
		}
		if v.Len() == 0 {
			return "x"
		}
		var parts []string
		for i := 0; i < v.Len(); i++ {
			parts = append(parts, render(v.Index(i), depth+1))
		}
		return "[" + strings.Join(parts, ",") + "]"
	case reflect.Interface:
		if v.IsNil() {
			return "nil"
		}
		return render(v.Elem(), depth)
	case reflect.Ptr:
		if v.IsNil() {
			return "nil"
		}
		return "&" + render(v.Elem(), depth+1)
	case reflect.Struct:
		var parts []string
		for i := 0; i < v.NumField(); i++ {
			parts = append(parts, render(v.Field(i), depth+1))
		}
		return "{" + strings.Join(parts, ",") + "}"
	}
	return "<" + v.Kind().String() + ">"
}

func mask(bits int) uint64 {
	if bits >= 64 {
		return ^uint64(0)
	}
	return (uint64(1) << uint(bits)) - 1
}

// DeepEq is structural equality over exported (and embedded) fields: pointers by pointee, nil and empty slices equal,
// interfaces by dynamic type and value, bytes.Buffer by unread content.
func DeepEq(a, b interface{}) bool {
	return deepEq(reflect.ValueOf(a), reflect.ValueOf(b), 0)
}

var bufType = reflect.TypeOf(bytes.Buffer{})
var ipType = reflect.TypeOf(net.IP{})

func deepEq(a, b reflect.Value, depth int) bool {
	if depth > 24 {
		return true
	}
	if !a.IsValid() || !b.IsValid() {
		return a.IsValid() == b.IsValid()
	}
	if a.Type() != b.Type() {
		return false
	}
	if a.Type() == bufType {
		return bytes.Equal(bufBytes(a), bufBytes(b))
	}
	if a.Type() == ipType {
		// net.IP: the 4-byte and the 16-byte (::ffff:a.b.c.d) forms are the same address
		x, y := net.IP(a.Bytes()), net.IP(b.Bytes())
		if x4 := x.To4(); x4 != nil {
			x = x4
		}
		if y4 := y.To4(); y4 != nil {
			y = y4
		}
		return bytes.Equal(x, y)
	}
	switch a.Kind() {
	case reflect.Bool:
		return a.Bool() == b.Bool()
	case reflect.Int, reflect.Int8, reflect.Int16, reflect.Int32, reflect.Int64:
		return a.Int() == b.Int()
	case reflect.Uint, reflect.Uint8, reflect.Uint16, reflect.Uint32, reflect.Uint64, reflect.Uintptr:
		return a.Uint() == b.Uint()
	case reflect.String:
		return a.String() == b.String()
	case reflect.Slice, reflect.Array:
		if a.Len() != b.Len() {
			return false
		}
		for i := 0; i < a.Len(); i++ {
			if !deepEq(a.Index(i), b.Index(i), depth+1) {
				return false
			}
		}
		return true
	case reflect.Interface, reflect.Ptr:
		if a.IsNil() || b.IsNil() {
			return a.IsNil() == b.IsNil()
		}
		return deepEq(a.Elem(), b.Elem(), depth+1)
	case reflect.Struct:
		for i := 0; i < a.NumField(); i++ {
			if sf := a.Type().Field(i); !sf.IsExported() && !sf.Anonymous {
				continue // unexported state is observed through the re-encoding, not here
			}
			if !deepEq(a.Field(i), b.Field(i), depth+1) {
				return false
			}
		}
		return true
	case reflect.Map:
		return a.Len() == b.Len()
	case reflect.Func, reflect.Chan:
		return a.IsNil() == b.IsNil()
	}
	return false
}

func bufBytes(v reflect.Value) []byte {
	buf := v.FieldByName("buf")
	off := int(v.FieldByName("off").Int())
	out := make([]byte, 0, buf.Len())
	for i := off; i < buf.Len(); i++ {
		out = append(out, byte(buf.Index(i).Uint()))
	}
	return out
}

// RunCase executes one harness natively under a replay case.
func RunCase(c *Case, harnesses map[string]func()) (res Result) {
	cur = c
	concreteInputs = false
	seq = map[string]int{}
	observes = nil
	res.Harness = c.Harness
	f, ok := harnesses[c.Harness]
	if !ok {
		res.Outcome = "no-such-harness"
		return
	}
	allocLimit = 0
	defer func() {
		res.Observes = observes
		if allocLimit > 0 {
			var ms runtime.MemStats
			runtime.ReadMemStats(&ms)
			res.AllocBytes = ms.TotalAlloc - allocBase
			res.OverAlloc = res.AllocBytes > allocLimit
		}
		if r := recover(); r != nil {
			switch e := r.(type) {
			case assumeFalse:
				res.Outcome = "assume-false"
			case assertFail:
				res.Outcome = "assert-fail:" + e.label
			default:
				res.Outcome = "panic"
				res.Panic = fmt.Sprint(r)
			}
		}
	}()
	f()
	res.Outcome = "return"
	return
}

// Main is called by the generated TestVerifReplay: runs the cases named in VERIF_REPLAY
// (comma-separated files, each a JSON Case or a JSON list of Cases) and prints one
// "VERIF-RESULT <json>" line per case.
func Main(harnesses map[string]func()) {
	files := strings.Split(os.Getenv("VERIF_REPLAY"), ",")
	for _, f := range files {
		if f == "" {
			continue
		}
		data, err := os.ReadFile(f)
		if err != nil {
			fmt.Printf("VERIF-ERROR cannot read %s: %v\n", f, err)
			continue
		}
		var cases []Case
		if err := json.Unmarshal(data, &cases); err != nil {
			var one Case
			if err2 := json.Unmarshal(data, &one); err2 != nil {
				fmt.Printf("VERIF-ERROR cannot parse %s: %v\n", f, err)
				continue
			}
			cases = []Case{one}
		}
		for i := range cases {
			r := RunCase(&cases[i], harnesses)
			out, _ := json.Marshal(r)
			fmt.Printf("VERIF-RESULT %s\n", out)
		}
	}
}
