//go:build verif

package openflow13

// C13 — sizing and encoding are repeatable and do not disturb the value: for every encodable
// value and every sequence of ≤ 3 (quick) / 4 (thorough) operations drawn from {Len, MarshalBinary},
// all size answers agree, all encodings agree byte for byte, and size == len(encoding); also
// through the vendor / bundle wrappers, which size their child several times before encoding it.

import (
	"github.com/contiv/libOpenflow/common"
	"github.com/contiv/libOpenflow/util"
	vr "github.com/contiv/libOpenflow/verifrt"
	"net"
)

func c13ops() int {
	if vr.Thorough() {
		return 4
	}
	return 3
}

// c13repeat runs a Choice-selected sequence of Len / MarshalBinary on m and asserts agreement.
func c13repeat(m util.Message) { c13repeatN(m, c13ops()) }

func c13repeatN(m util.Message, n int) {
	var firstLen uint16
	var firstBytes []byte
	haveLen, haveBytes := false, false
	for i := 0; i < n; i++ {
		if vr.Choice("op", 2) == 0 {
			l := m.Len()
			if haveLen {
				vr.Assert(l == firstLen, "len-repeatable")
			}
			firstLen, haveLen = l, true
		} else {
			b, err := m.MarshalBinary()
			vr.Assert(err == nil, "marshal-ok")
			// the encoder may hand out its internal buffer: compare against a private copy
			c := make([]byte, len(b))
			copy(c, b)
			if haveBytes {
				vr.Assert(len(c) == len(firstBytes), "encoding-size-repeatable")
				vr.Assert(vr.BytesEq(c, firstBytes), "encoding-repeatable")
			}
			firstBytes, haveBytes = c, true
		}
		if haveLen && haveBytes {
			vr.Assert(int(firstLen) == len(firstBytes), "len==bytes-throughout")
		}
	}
}

func VerifC13_Field() {
	k := vr.Choice("kind", nFieldKinds)
	vr.Tag("kind", fieldKindNames[k])
	c13repeat(buildField(k))
}

func VerifC13_Action() {
	k := vr.Choice("kind", nActionKinds)
	vr.Tag("kind", actionKindNames[k])
	c13repeat(buildAction(k, 1))
}

func VerifC13_Instr() {
	k := vr.Choice("kind", nInstrKinds)
	vr.Tag("kind", instrKindNames[k])
	c13repeat(buildInstr(k, 1, 1))
}

func VerifC13_Bucket() { c13repeat(buildBucket(2, 0)) }

func VerifC13_LearnSpec() { c13repeat(buildLearnSpec()) }

func VerifC13_Message() {
	k := vr.Choice("kind", nMsgKinds)
	vr.Tag("kind", msgKindNames[k])
	// whole messages: every sequence of 2 operations (quick) — the richer 3/4-operation
	// sequences run on the element kinds above and on the wrapped messages below
	c13repeatN(buildMessage(k), c13ops()-1)
}

// the same child embedded via the bundle and vendor wrappers: wrapper and child interleaved
func VerifC13_BundleWrapped() {
	inner := []int{7, 8, 9, 6}[vr.Choice("inner", 4)]
	vr.Tag("inner", msgKindNames[inner])
	m := buildMessage(inner)
	v := NewBundleAdd(&BundleAdd{BundleID: vr.U32("bundle"), Flags: vr.U16("bflags"), Message: m})
	b0, _ := m.MarshalBinary()
	c0 := make([]byte, len(b0))
	copy(c0, b0)
	c13repeatN(v, c13ops()-1)
	b1, _ := m.MarshalBinary()
	vr.Assert(vr.BytesEq(c0, b1), "child-encoding-unchanged-by-wrapper")
}

// an action embedded in a flow-mod embedded in a bundle: a nested child that stores derived lengths
func VerifC13_NestedAction() {
	k := []int{17, 23, 24, 25, 26, 10, 13}[vr.Choice("kind", 7)]
	vr.Tag("kind", actionKindNames[k])
	a := buildAction(k, 1)
	ia := NewInstrApplyActions()
	ia.AddAction(a, false)
	f := NewFlowMod()
	f.AddInstruction(ia)
	v := NewBundleAdd(&BundleAdd{BundleID: 1, Message: f})
	c13repeat(v)
	ab, _ := a.MarshalBinary()
	vr.Assert(int(a.Len()) == len(ab), "child-len==bytes-afterwards")
}

// switch-side and error kinds built with their constructors only (no derived length field set
// by hand): what a second encoding produces must be what the first produced
func VerifC13_ConstructorOnly() {
	var m util.Message
	switch vr.Choice("kind", 6) {
	case 0:
		vr.Tag("kind", "BundleError")
		e := NewBundleError()
		e.Code = vr.U16("ecode")
		e.Data = *util.NewBuffer(vr.Bytes("edata", vr.IntRange("edatalen", 0, 5)))
		m = e
	case 1:
		vr.Tag("kind", "ErrorMsg")
		e := NewErrorMsg()
		e.Type, e.Code = vr.U16("etype"), vr.U16("ecode")
		e.Data = *util.NewBuffer(vr.Bytes("edata", vr.IntRange("edatalen", 0, 5)))
		m = e
	case 2:
		vr.Tag("kind", "PacketIn")
		p := NewPacketIn()
		p.Cookie = vr.U64("cookie")
		p.Match.AddField(*buildField(0))
		p.Data = bldEthernetRaw(4)
		m = p
	case 3:
		vr.Tag("kind", "FlowRemoved")
		f := NewFlowRemoved()
		f.Match.AddField(*buildField(0))
		m = f
	case 4:
		vr.Tag("kind", "PortStatus")
		p := NewPortStatus()
		p.Desc = *bldPhyPort()
		m = p
	default:
		vr.Tag("kind", "FeaturesReply")
		f := NewFeaturesReply()
		f.Ports = append(f.Ports, *bldPhyPort())
		m = f
	}
	c13repeat(m)
}

// builder histories in which a nested child grows after it was added (conntrack receiving a
// nested action, note receiving its text), at element, instruction and message level
func VerifC13_LateGrowth() {
	a, grow := c06lateChild()
	switch vr.Choice("level", 3) {
	case 0:
		grow()
		c13repeat(a)
	case 1:
		ia := NewInstrApplyActions()
		ia.AddAction(a, false)
		grow()
		c13repeat(ia)
	default:
		ia := NewInstrApplyActions()
		ia.AddAction(a, false)
		f := NewFlowMod()
		f.AddInstruction(ia)
		grow()
		c13repeatN(f, 2)
	}
}

// a conntrack action whose nested nat action receives its ranges after it was nested
func VerifC13_LateGrowthNat() {
	ct := NewNXActionConnTrack()
	nat := NewNXActionCTNAT()
	nat.SetSNAT()
	ct.AddAction(nat)
	nat.SetRangeIPv4Min(net.IP(vr.Bytes("min", 4)))
	if vr.Bool("max") {
		nat.SetRangeIPv4Max(net.IP(vr.Bytes("max", 4)))
	}
	if vr.Bool("in-instruction") {
		ia := NewInstrApplyActions()
		ia.AddAction(ct, false)
		c13repeat(ia)
	} else {
		c13repeat(ct)
	}
}

// an experimenter-class match field written as a literal (no constructor builds one), with any
// experimenter id including none, alone and inside set-field / reg_load2
func VerifC13_ExperimenterFieldLiteral() {
	fld := &MatchField{Class: OXM_CLASS_EXPERIMENTER, Field: vr.U8("field") & 0x7f, Length: 8, ExperimenterID: vr.U32("experimenter"), Value: &Uint32Message{Data: vr.U32("value")}}
	switch vr.Choice("where", 3) {
	case 0:
		c13repeat(fld)
	case 1:
		c13repeat(NewActionSetField(*fld))
	default:
		c13repeat(NewNXActionRegLoad2(fld))
	}
}

// a hello without elements: written as a literal, or decoded from the bare 8-byte header an
// OpenFlow 1.0-style peer sends
func VerifC13_HelloWithoutElements() {
	var h *common.Hello
	if vr.Bool("decoded") {
		b := []byte{4, Type_Hello, 0, 8, 0, 0, 0, 0}
		copy(b[4:], vr.Bytes("xid", 4))
		m, err := Parse(b)
		if err != nil {
			return
		}
		h = m.(*common.Hello)
	} else {
		h = new(common.Hello)
		h.Header = NewOfp13Header()
		h.Header.Type = Type_Hello
	}
	c13repeat(h)
}
