//go:build verif

package openflow13

import (
	vr "github.com/contiv/libOpenflow/verifrt"
)

// C18 — one inductive step from an arbitrary builder state (any two 32-bit words, a superset of
// the 6,561 reachable states): the op's flag gets its mask bit set and its value bit = polarity,
// all other 62 bits unchanged. Base case: NewCTStates() is all-zero.

func ctApply(s *CTStates, op int) {
	switch op {
	case 0:
		s.SetNew()
	case 1:
		s.UnsetNew()
	case 2:
		s.SetEst()
	case 3:
		s.UnsetEst()
	case 4:
		s.SetRel()
	case 5:
		s.UnsetRel()
	case 6:
		s.SetRpl()
	case 7:
		s.UnsetRpl()
	case 8:
		s.SetInv()
	case 9:
		s.UnsetInv()
	case 10:
		s.SetTrk()
	case 11:
		s.UnsetTrk()
	case 12:
		s.SetSNAT()
	case 13:
		s.UnsetSNAT()
	case 14:
		s.SetDNAT()
	case 15:
		s.UnsetDNAT()
	}
}

func VerifC18_Step() {
	d0 := vr.U32("data0")
	m0 := vr.U32("mask0")
	op := vr.Choice("op", 16)
	s := NewCTStates()
	vr.Assert(s.data == 0, "base-data-zero")
	vr.Assert(s.mask == 0, "base-mask-zero")
	s.data, s.mask = d0, m0
	ctApply(s, op)
	bit := uint32(1) << uint(op/2) // flag order: new est rel rpl inv trk snat dnat = bits 0..7
	set := op%2 == 0
	vr.Assert(s.mask == m0|bit, "mask: own bit set, others unchanged")
	if set {
		vr.Assert(s.data == d0|bit, "data: own bit 1, others unchanged")
	} else {
		vr.Assert(s.data == d0&^bit, "data: own bit 0, others unchanged")
	}
	vr.Observe("data", s.data)
	vr.Observe("mask", s.mask)
}

func VerifC18_MatchField() {
	s := NewCTStates()
	s.data, s.mask = vr.U32("data"), vr.U32("mask")
	f := NewCTStateMatchField(s)
	vr.Assert(f.Class == 1, "class-nxm1")
	vr.Assert(f.Field == 105, "field-ct_state")
	vr.Assert(f.HasMask, "hasmask")
	vr.Assert(f.Length == 8, "length-8")
	b, err := f.MarshalBinary()
	vr.Assert(err == nil, "marshal-ok")
	vr.Assert(len(b) == 12, "len-12")
	vr.Assert(vr.And(b[0] == 0, b[1] == 1), "wire-class")
	vr.Assert(b[2] == 105<<1|1, "wire-field-mask")
	vr.Assert(b[3] == 8, "wire-length")
	vr.Assert(uint32(b[4])<<24|uint32(b[5])<<16|uint32(b[6])<<8|uint32(b[7]) == s.data, "value==data")
	vr.Assert(uint32(b[8])<<24|uint32(b[9])<<16|uint32(b[10])<<8|uint32(b[11]) == s.mask, "mask==mask")
	vr.Observe("bytes", b)
}

// Sequences of up to 3 operations from the initial state, against a per-flag reference
// (last call wins, untouched flags wildcarded) — the statement's own formulation.
func VerifC18_Sequence() {
	k := vr.IntRange("len", 0, 3)
	s := NewCTStates()
	var touched, polarity [8]bool
	for i := 0; i < k; i++ {
		op := vr.Choice("op", 16)
		ctApply(s, op)
		touched[op/2] = true
		polarity[op/2] = op%2 == 0
	}
	f := NewCTStateMatchField(s)
	b, _ := f.MarshalBinary()
	for fl := 0; fl < 8; fl++ {
		mbit := b[11]>>uint(fl)&1 == 1
		vbit := b[7]>>uint(fl)&1 == 1
		vr.Assert(mbit == touched[fl], "mask-bit==touched")
		if touched[fl] {
			vr.Assert(vbit == polarity[fl], "value-bit==last-polarity")
		} else {
			vr.Assert(!vbit, "untouched-value-zero")
		}
	}
	vr.Assert(vr.And(b[4] == 0, vr.And(b[5] == 0, b[6] == 0)), "high-value-bytes-zero")
	vr.Assert(vr.And(b[8] == 0, vr.And(b[9] == 0, b[10] == 0)), "high-mask-bytes-zero")
}
