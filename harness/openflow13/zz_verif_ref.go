//go:build verif

package openflow13

// Reference (specification) writers and the length-only walker used by C02 / C03 / C04.
// Transcribed from OpenFlow 1.3.5 §7 and OVS nicira-ext.h / meta-flow.h (DESIGN.md Appendix A).
// Deliberately dumb: sequential big-endian writes at literal offsets; no code shared with the
// library's encoders.

import (
	vr "github.com/contiv/libOpenflow/verifrt"
)

type refW struct{ b []byte }

func (w *refW) u8(v uint8)   { w.b = append(w.b, v) }
func (w *refW) u16(v uint16) { w.b = append(w.b, byte(v>>8), byte(v)) }
func (w *refW) u32(v uint32) { w.b = append(w.b, byte(v>>24), byte(v>>16), byte(v>>8), byte(v)) }
func (w *refW) u64(v uint64) {
	w.u32(uint32(v >> 32))
	w.u32(uint32(v))
}
func (w *refW) raw(p []byte) { w.b = append(w.b, p...) }
func (w *refW) zeros(n int) {
	for i := 0; i < n; i++ {
		w.b = append(w.b, 0)
	}
}
func (w *refW) padTo8() { w.zeros((8 - len(w.b)%8) % 8) }
func (w *refW) setU16(off int, v uint16) {
	w.b[off], w.b[off+1] = byte(v>>8), byte(v)
}

// ---- match fields: class, field number, payload width per kind (index = buildField kind) ----

type refFieldSpec struct {
	class uint16
	field uint8
	width int // 0: variable (tunnel metadata)
}

var refFieldTable = []refFieldSpec{
	{0x8000, 0, 4}, {0x8000, 3, 6}, {0x8000, 4, 6}, {0x8000, 5, 2}, {0x8000, 6, 2}, {0x8000, 34, 4}, {0x8000, 36, 1},
	{0x8000, 11, 4}, {0x8000, 12, 4}, {0x8000, 26, 16}, {0x8000, 27, 16}, {0x8000, 28, 4}, {0x8000, 10, 1}, {0x8000, 8, 1},
	{0x8000, 38, 8}, {0x8000, 2, 8}, {0x8000, 13, 2}, {0x8000, 14, 2}, {0x8000, 15, 2}, {0x8000, 16, 2}, {0x8000, 42, 2},
	{0x8000, 21, 2}, {0x0001, 31, 4}, {0x0001, 32, 4}, {0x8000, 18, 2}, {0x8000, 17, 2}, {0x8000, 25, 6}, {0x8000, 24, 6},
	{0x8000, 23, 4}, {0x8000, 22, 4}, {0x8000, 43, 4}, {0x8000, 20, 1}, {0x8000, 19, 1},
	{0x0001, 0, 4}, {0x0001, 42, 0}, {0x0001, 105, 4}, {0x0001, 106, 2}, {0x0001, 107, 4}, {0x0001, 108, 16}, {0x0001, 37, 4},
	{0x0001, 17, 6}, {0x0001, 18, 6}, {0x0000, 16, 4}, {0x0000, 17, 4},
}

// refOXM writes the OXM TLV the specification defines for the arguments of the last
// buildField call: class(2) field<<1|hasmask(1) length(1) value [mask].
func refOXM(w *refW) {
	sp := refFieldTable[argKind]
	field, value, mask, masked := sp.field, argV, argM, argMasked
	switch argKind {
	case 4: // vlan_vid: a specific VLAN is matched with the OFPVID_PRESENT bit set (OF1.3.5 §7.2.3.7)
		value = []byte{argV[0] | 0x10, argV[1]}
	case 33: // register: field number = register index; mask = the bits of the range
		field = uint8(argRegIdx)
		if argRng != nil {
			first, last := uint(argRng[0]), uint(argRng[1])
			m := uint32((uint64(1)<<(last-first+1) - 1) << first)
			mask, masked = beBytes(uint64(m), 4), true
		} else {
			masked = false
		}
	case 35: // ct_state is always value/mask
		masked = true
	}
	n := len(value)
	if masked {
		n += len(mask)
	}
	w.u16(sp.class)
	hm := uint8(0)
	if masked {
		hm = 1
	}
	w.u8(field<<1 | hm)
	w.u8(uint8(n))
	w.raw(value)
	if masked {
		w.raw(mask)
	}
}

// refFieldWidthOK: the payload width the specification gives this field (variable for tun metadata)
func refFieldWidth(kind int) int { return refFieldTable[kind].width }

// ---- the length-only walker (C02) ----

// A receiver that knows only the grammar: it follows declared lengths, checks alignment and
// type codes, and must arrive exactly at the end. Every rule is an assertion with its own label.

func walkU16(b []byte, off int) int { return int(b[off])<<8 | int(b[off+1]) }
func walkU32(b []byte, off int) uint32 {
	return uint32(b[off])<<24 | uint32(b[off+1])<<16 | uint32(b[off+2])<<8 | uint32(b[off+3])
}

// walkOXMs walks OXM TLVs in b[off:end] and requires them to fill it exactly.
func walkOXMs(b []byte, off, end int) {
	for off < end {
		vr.Assert(off+4 <= end, "walk:oxm-header-fits")
		class := walkU16(b, off)
		plen := int(b[off+3])
		vr.Assert(class == 0x8000 || class == 0x0001 || class == 0x0000 || class == 0xffff, "walk:oxm-class-defined")
		vr.Assert(off+4+plen <= end, "walk:oxm-payload-fits")
		if b[off+2]&1 == 1 {
			vr.Assert(plen%2 == 0, "walk:masked-oxm-length-even")
		}
		off += 4 + plen
	}
	vr.Assert(off == end, "walk:oxms-fill-exactly")
}

// walkMatch walks an ofp_match at off and returns the offset after its padding.
func walkMatch(b []byte, off int) int {
	vr.Assert(off+4 <= len(b), "walk:match-header-fits")
	vr.Assert(walkU16(b, off) == 1, "walk:match-type-oxm")
	l := walkU16(b, off+2)
	vr.Assert(l >= 4, "walk:match-length>=4")
	vr.Assert(off+l <= len(b), "walk:match-fits")
	walkOXMs(b, off+4, off+l)
	end := off + (l+7)/8*8
	vr.Assert(end <= len(b), "walk:match-padding-fits")
	vr.Assert(allZero(b, off+l, end), "walk:match-padding-zero")
	return end
}

var walkActionLen = map[int]int{0: 16, 11: 8, 12: 8, 15: 8, 16: 8, 17: 8, 18: 8, 19: 8, 20: 8, 21: 8, 22: 8, 23: 8, 24: 8, 26: 8, 27: 8}

// Nicira subtypes with a fixed size (nicira-ext.h)
var walkNxLen = map[int]int{1: 16, 6: 24, 7: 24, 14: 16, 15: 24, 18: 16, 20: 16, 34: 16, 43: 16, 44: 16}

// walkActions walks actions in b[off:end] and requires them to fill it exactly.
func walkActions(b []byte, off, end int) {
	for off < end {
		vr.Assert(off+8 <= end, "walk:action-header-fits")
		t, l := walkU16(b, off), walkU16(b, off+2)
		vr.Assert(l >= 8, "walk:action-length>=8")
		vr.Assert(l%8 == 0, "walk:action-length-multiple-of-8")
		vr.Assert(off+l <= end, "walk:action-fits")
		switch {
		case t == 25: // set_field: one OXM, then zero padding
			plen := int(b[off+7])
			vr.Assert(8+plen <= l, "walk:set-field-oxm-fits")
			vr.Assert(l == (4+4+plen+7)/8*8, "walk:set-field-length")
			vr.Assert(allZero(b, off+8+plen, off+l), "walk:set-field-padding-zero")
		case t == 0xffff:
			vr.Assert(l >= 16, "walk:experimenter-action-length>=16")
			vr.Assert(walkU32(b, off+4) == 0x2320, "walk:nicira-vendor-id")
			sub := walkU16(b, off+8)
			if fl, ok := walkNxLen[sub]; ok {
				vr.Assert(l == fl, "walk:nicira-fixed-length")
			} else {
				switch sub {
				case 8: // note
				case 16: // learn
					vr.Assert(l >= 32, "walk:learn-length>=32")
					walkLearnSpecs(b, off+32, off+l)
				case 21: // dec_ttl_cnt_ids: n_controllers(2) zeros(4) ids
					n := walkU16(b, off+10)
					vr.Assert(l == (16+2*n+7)/8*8, "walk:cnt-ids-length")
					vr.Assert(allZero(b, off+16+2*n, off+l), "walk:cnt-ids-padding-zero")
				case 33: // reg_load2: one OXM from offset 10, zero padding
					plen := int(b[off+13])
					vr.Assert(l == (10+4+plen+7)/8*8, "walk:reg-load2-length")
					vr.Assert(allZero(b, off+14+plen, off+l), "walk:reg-load2-padding-zero")
				case 35: // ct: nested actions from offset 24
					vr.Assert(l >= 24, "walk:ct-length>=24")
					walkActions(b, off+24, off+l)
				case 36: // nat: fields by presence bitmap, zero padding
					present := walkU16(b, off+14)
					n := 16
					for bit, sz := range []int{4, 4, 16, 16, 2, 2} {
						if present&(1<<uint(bit)) != 0 {
							n += sz
						}
					}
					vr.Assert(present&^0x3f == 0, "walk:nat-range-bits-defined")
					vr.Assert(l == (n+7)/8*8, "walk:nat-length")
					vr.Assert(allZero(b, off+n, off+l), "walk:nat-padding-zero")
				default:
					vr.Assert(false, "walk:nicira-subtype-defined")
				}
			}
		default:
			fl, ok := walkActionLen[t]
			vr.Assert(ok, "walk:action-type-defined")
			vr.Assert(l == fl, "walk:action-fixed-length")
		}
		off += l
	}
	vr.Assert(off == end, "walk:actions-fill-exactly")
}

// learn specs: header(2): bit 13 src-is-immediate, bits 11-12 dst kind, low bits n_bits;
// immediate = 2*ceil(n_bits/16) bytes, field reference = 6 bytes; zero padding (< 8 bytes,
// recognised as a zero header) ends the list.
func walkLearnSpecs(b []byte, off, end int) {
	for off+2 <= end {
		h := walkU16(b, off)
		if h == 0 {
			break
		}
		nbits := h & 0x7ff
		n := 2
		if h&(1<<13) != 0 {
			n += 2 * ((nbits + 15) / 16)
		} else {
			n += 6
		}
		dst := (h >> 11) & 3
		vr.Assert(dst <= 2, "walk:learn-dst-kind-defined")
		if dst != 2 {
			n += 6
		}
		vr.Assert(off+n <= end, "walk:learn-spec-fits")
		off += n
	}
	vr.Assert(end-off < 8, "walk:learn-padding<8")
	vr.Assert(allZero(b, off, end), "walk:learn-padding-zero")
}

// walkInstructions walks instructions in b[off:end].
func walkInstructions(b []byte, off, end int) {
	for off < end {
		vr.Assert(off+8 <= end, "walk:instruction-header-fits")
		t, l := walkU16(b, off), walkU16(b, off+2)
		vr.Assert(l >= 8 && l%8 == 0, "walk:instruction-length")
		vr.Assert(off+l <= end, "walk:instruction-fits")
		switch t {
		case 1:
			vr.Assert(l == 8, "walk:goto-table-length")
		case 2:
			vr.Assert(l == 24, "walk:write-metadata-length")
		case 3, 4, 5:
			walkActions(b, off+8, off+l)
		case 6:
			vr.Assert(l == 8, "walk:meter-length")
		default:
			vr.Assert(false, "walk:instruction-type-defined")
		}
		off += l
	}
	vr.Assert(off == end, "walk:instructions-fill-exactly")
}

func walkBuckets(b []byte, off, end int) {
	for off < end {
		vr.Assert(off+16 <= end, "walk:bucket-header-fits")
		l := walkU16(b, off)
		vr.Assert(l >= 16 && l%8 == 0, "walk:bucket-length")
		vr.Assert(off+l <= end, "walk:bucket-fits")
		walkActions(b, off+16, off+l)
		off += l
	}
	vr.Assert(off == end, "walk:buckets-fill-exactly")
}

// walkMessage walks one whole OpenFlow message occupying b exactly.
func walkMessage(b []byte) {
	vr.Assert(len(b) >= 8, "walk:header-fits")
	vr.Assert(b[0] == 4, "walk:version")
	vr.Assert(walkU16(b, 2) == len(b), "walk:header-length")
	switch b[1] {
	case 0: // hello: elements type(2) length(2), padded to 8
		off := 8
		for off < len(b) {
			vr.Assert(off+4 <= len(b), "walk:hello-element-header-fits")
			l := walkU16(b, off+2)
			vr.Assert(l >= 4, "walk:hello-element-length>=4")
			if walkU16(b, off) == 1 {
				vr.Assert((l-4)%4 == 0, "walk:version-bitmap-length")
			}
			off += (l + 7) / 8 * 8
		}
		vr.Assert(off == len(b), "walk:hello-elements-fill-exactly")
	case 2, 3, 5, 7, 20:
		if b[1] != 2 && b[1] != 3 {
			vr.Assert(len(b) == 8, "walk:header-only-message")
		}
	case 9:
		vr.Assert(len(b) == 12, "walk:switch-config-size")
	case 13: // packet-out
		vr.Assert(len(b) >= 24, "walk:packet-out-fixed-part")
		al := walkU16(b, 16)
		vr.Assert(24+al <= len(b), "walk:packet-out-actions-fit")
		walkActions(b, 24, 24+al)
	case 14: // flow-mod
		vr.Assert(len(b) >= 56, "walk:flow-mod-fixed-part")
		off := walkMatch(b, 48)
		walkInstructions(b, off, len(b))
	case 15: // group-mod
		vr.Assert(len(b) >= 16, "walk:group-mod-fixed-part")
		walkBuckets(b, 16, len(b))
	case 16:
		vr.Assert(len(b) == 40, "walk:port-mod-size")
	case 18: // multipart request
		vr.Assert(len(b) >= 16, "walk:multipart-fixed-part")
		switch walkU16(b, 8) {
		case 0, 3:
			vr.Assert(len(b) == 16, "walk:multipart-empty-body")
		case 1, 2:
			vr.Assert(len(b) >= 16+32+8, "walk:flow-request-fixed-part")
			vr.Assert(walkMatch(b, 48) == len(b), "walk:flow-request-match-fills")
		case 4, 5:
			vr.Assert(len(b) == 24, "walk:port/queue-request-size")
		}
	case 4: // experimenter
		vr.Assert(len(b) >= 16, "walk:experimenter-fixed-part")
		vendor, et := walkU32(b, 8), walkU32(b, 12)
		switch {
		case vendor == 0x2320 && et == 20:
			vr.Assert(len(b) == 24, "walk:set-controller-id-size")
		case vendor == 0x2320 && et == 24:
			vr.Assert(len(b) >= 24 && (len(b)-24)%8 == 0, "walk:tlv-table-mod-size")
		case vendor == 0x2320 && et == 25:
			vr.Assert(len(b) == 16, "walk:tlv-table-request-size")
		case vendor == 0x4f4e4600 && et == 2300:
			vr.Assert(len(b) == 24, "walk:bundle-control-size")
		case vendor == 0x4f4e4600 && et == 2301:
			vr.Assert(len(b) >= 32, "walk:bundle-add-fixed-part")
			il := walkU16(b, 26)
			vr.Assert(il >= 8 && 24+il <= len(b), "walk:bundled-message-fits")
			walkMessage(b[24 : 24+il])
			off := 24 + il
			for off < len(b) {
				vr.Assert(off+4 <= len(b), "walk:bundle-property-header-fits")
				pl := walkU16(b, off+2)
				vr.Assert(pl >= 4 && off+pl <= len(b), "walk:bundle-property-fits")
				// the only property type is the experimenter one (0xffff, at least 12 bytes); what
				// follows it up to the next multiple of 8 is zero padding
				vr.Assert(walkU16(b, off) == 0xffff && pl >= 12, "walk:bundle-property-is-experimenter")
				end := off + (pl+7)/8*8
				for q := off + pl; q < end && q < len(b); q++ {
					vr.Assert(b[q] == 0, "walk:bundle-property-padding-zero")
				}
				off = end
			}
			vr.Assert(off == len(b), "walk:bundle-properties-fill-exactly")
		default:
			vr.Assert(false, "walk:experimenter-type-defined")
		}
	default:
		vr.Assert(false, "walk:message-type-defined")
	}
}
