//go:build verif

package openflow13

// C01 — every controller-originated message encodes with version 4, its OpenFlow 1.3 type code,
// and a header length equal to the bytes produced and to the size it reports.
// Bounds: ≤ 2 match fields, ≤ 2 instructions, ≤ 2 buckets, ≤ 2 actions per list, payload ≤ 8 B
// (quick); 3 of each and 16 B (thorough, where marked). Message sizes near 65535 are outside.

import (
	"github.com/contiv/libOpenflow/common"
	"github.com/contiv/libOpenflow/util"
	vr "github.com/contiv/libOpenflow/verifrt"
)

func c01framed(m util.Message, typ uint8) []byte {
	b, err := m.MarshalBinary()
	vr.Assert(err == nil, "marshal-ok")
	vr.Assert(len(b) >= 8, "has-header")
	vr.Assert(b[0] == 4, "version==4")
	vr.Assert(b[1] == typ, "type-code")
	vr.Assert(int(be16at(b, 2)) == len(b), "header-length==bytes")
	vr.Assert(int(m.Len()) == len(b), "len==bytes")
	return b
}

func VerifC01_Message() {
	k := vr.Choice("kind", nMsgKinds)
	vr.Tag("kind", msgKindNames[k])
	c01framed(buildMessage(k), msgTypeCode[k])
}

// match lists: two fields; the thorough tier widens the kinds per field (8 instead of 4), not
// the list — three fields of eight kinds ran to 2.8 million paths and starved the other harnesses
func c01n() int { return 2 }

// flow-mod: every command byte, richer instruction lists
func VerifC01_FlowModInstructions() {
	f := NewFlowMod()
	f.Command = vr.U8("command")
	k := vr.IntRange("ninstr", 0, 2)
	for i := 0; i < k; i++ {
		f.AddInstruction(buildInstr(vr.Choice("ikind", nInstrKinds), 1, 1))
	}
	c01framed(f, Type_FlowMod)
}

// flow-mod whose apply-actions carries a set-field (or reg_load2) of every field kind: the
// action's own padding depends on the field's width (4+4+w already aligned for 8- and 16-byte
// fields), so the frame must be checked for each width, not for two representative kinds.
func VerifC01_FlowModSetFieldEveryKind() {
	f := NewFlowMod()
	f.Command = vr.U8("command")
	ia := NewInstrApplyActions()
	fld := buildField(vr.Choice("fkind", nFieldKinds))
	if vr.Bool("regload2") {
		ia.AddAction(NewNXActionRegLoad2(fld), false)
	} else {
		ia.AddAction(NewActionSetField(*fld), false)
	}
	f.AddInstruction(ia)
	c01framed(f, Type_FlowMod)
}

func VerifC01_FlowModMatch() {
	f := NewFlowMod()
	f.Command = vr.U8("command")
	f.Match = *buildMatch(c01n(), 1)
	if vr.Bool("one-instr") {
		f.AddInstruction(buildInstr(vr.Choice("ikind", nInstrKinds), 1, 0))
	}
	c01framed(f, Type_FlowMod)
}

// group-mod: every command, buckets with richer actions
func VerifC01_GroupModBuckets() {
	g := NewGroupMod()
	g.Command, g.Type = vr.U16("command"), vr.U8("gtype")
	k := vr.IntRange("nbuckets", 0, 2)
	for i := 0; i < k; i++ {
		g.AddBucket(*buildBucket(1, 1))
	}
	c01framed(g, Type_GroupMod)
}

func VerifC01_PacketOut() {
	p := NewPacketOut()
	p.BufferId = vr.U32("buffer") // data may accompany a buffered packet too
	k := vr.IntRange("npacts", 0, 2)
	for i := 0; i < k; i++ {
		p.AddAction(buildActionShort(1))
	}
	if vr.Bool("hasdata") {
		max := 8
		if vr.Thorough() {
			max = 16
		}
		p.SetData(vr.Bytes("payload", vr.IntRange("paylen", 0, max)))
	}
	c01framed(p, Type_PacketOut)
}

// bundle add wrapping each of the other messages: the outer frame and the embedded frame both hold.
func VerifC01_BundleAdd() {
	k := vr.Choice("inner", nMsgKinds)
	vr.Tag("inner", msgKindNames[k])
	inner := buildMessage(k)
	v := NewBundleAdd(&BundleAdd{BundleID: vr.U32("bundle"), Flags: vr.U16("bflags"), Message: inner})
	b := c01framed(v, Type_Experimenter)
	vr.Assert(len(b) >= 32, "embedded-header-present")
	vr.Assert(b[24] == 4, "embedded-version==4")
	vr.Assert(b[25] == msgTypeCode[k], "embedded-type-code")
	vr.Assert(int(be16at(b, 26)) == len(b)-24, "embedded-header-length==embedded-bytes")
	vr.Assert(int(inner.Len()) == len(b)-24, "embedded-len==embedded-bytes")
}

// hello with 0..2 extra version-bitmap elements of 0..2 words each
func VerifC01_Hello() {
	h, _ := common.NewHello(VERSION)
	k := vr.IntRange("nelems", 0, 2)
	for i := 0; i < k; i++ {
		e := common.NewHelloElemVersionBitmap()
		w := vr.IntRange("nwords", 0, 2)
		for j := 0; j < w; j++ {
			e.Bitmaps = append(e.Bitmaps, vr.U32("bitmap"))
		}
		e.Length = uint16(4 + 4*len(e.Bitmaps)) // the length field excludes the padding
		h.Elements = append(h.Elements, e)
	}
	c01framed(h, Type_Hello)
}

// builder histories in which a child grows after it was added (see C06 LateGrowth harnesses)
func VerifC01_LateGrowth() {
	a, grow := c06lateChild()
	switch vr.Choice("container", 3) {
	case 0:
		vr.Tag("container", "PacketOut")
		p := NewPacketOut()
		p.BufferId = vr.U32("buffer") // data may accompany a buffered packet too
		p.AddAction(a)
		grow()
		c01framed(p, Type_PacketOut)
	case 1:
		vr.Tag("container", "FlowMod")
		ia := NewInstrApplyActions()
		ia.AddAction(a, false)
		grow()
		f := NewFlowMod()
		f.AddInstruction(ia)
		c01framed(f, Type_FlowMod)
	default:
		vr.Tag("container", "GroupMod")
		bk := NewBucket()
		bk.AddAction(a)
		grow()
		g := NewGroupMod()
		g.AddBucket(*bk)
		if vr.Bool("grow-after-addbucket") {
			grow()
		}
		g.AddBucket(Bucket{Weight: vr.U16("weight"), Actions: []Action{NewActionOutput(vr.U32("port"))}})
		c01framed(g, Type_GroupMod)
	}
}

// a multipart request whose body is raw bytes (experimenter multipart): any body size
func VerifC01_MultipartRawBody() {
	// any multipart type (table-features and experimenter requests carry bodies the library has
	// no type for; whatever the type, a body that is set is encoded and must be counted)
	r := &MultipartRequest{Header: NewOfp13Header(), Type: vr.U16("mptype"), Flags: vr.U16("flags")}
	r.Header.Type = Type_MultiPartRequest
	r.Body = util.NewBuffer(vr.Bytes("body", vr.IntRange("bodylen", 0, 13)))
	c01framed(r, Type_MultiPartRequest)
}
