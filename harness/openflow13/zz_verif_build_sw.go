//go:build verif

package openflow13

// Builders for the switch-originated message kinds (library constructors, symbolic fields):
// used by C05 (library round trip through Parse) and C12.

import (
	"github.com/contiv/libOpenflow/common"
	"github.com/contiv/libOpenflow/protocol"
	"github.com/contiv/libOpenflow/util"
	vr "github.com/contiv/libOpenflow/verifrt"
)

var swKindNames = []string{
	"Hello", "ErrorMsg", "VendorError", "EchoRequest", "EchoReply", "FeaturesReply", "GetConfigReply",
	"PacketIn", "FlowRemoved", "PortStatus", "BarrierReply", "MPDesc", "MPFlow", "MPAggregate", "MPTable",
	"MPPort", "MPQueue", "TLVTableReply", "BundleControlReply", "FlowMod", "SetConfig", "FeaturesRequest", "BundleAddFlowMod",
}

const nSwKinds = 23

func bldPhyPort() *PhyPort {
	p := NewPhyPort()
	p.PortNo = vr.U32("portno")
	copy(p.HWAddr, vr.Bytes("hw", 6))
	copy(p.Name, vr.Bytes("name", 16))
	p.Config, p.State, p.Curr, p.Advertised = vr.U32("config"), vr.U32("state"), vr.U32("curr"), vr.U32("adv")
	p.Supported, p.Peer, p.CurrSpeed, p.MaxSpeed = vr.U32("supp"), vr.U32("peer"), vr.U32("cspeed"), vr.U32("mspeed")
	return p
}

func bldEthernetRaw(maxPayload int) protocol.Ethernet {
	e := protocol.NewEthernet()
	e.VLANID = protocol.VLAN{} // untagged: what the decoder yields for a frame without a tag
	copy(e.HWDst, vr.Bytes("ethdst", 6))
	copy(e.HWSrc, vr.Bytes("ethsrc", 6))
	e.Ethertype = vr.U16("ethertype")
	vr.Assume(e.Ethertype != protocol.IPv4_MSG)
	vr.Assume(e.Ethertype != protocol.IPv6_MSG)
	vr.Assume(e.Ethertype != protocol.ARP_MSG)
	vr.Assume(e.Ethertype != protocol.VLAN_MSG)
	e.Data = util.NewBuffer(vr.Bytes("ethpayload", swCount("ethpaylen", maxPayload)))
	return *e
}

func mpReply(t uint16) *MultipartReply {
	r := &MultipartReply{Header: NewOfp13Header(), Type: t, Flags: vr.U16("flags")}
	r.Header.Type = Type_MultiPartReply
	return r
}

// fixedShape pins every count / kind choice of the builders below to one rich value (used by the
// C07 valid-frame families, where the shape must not multiply paths).
var fixedShape = false

func swCount(name string, max int) int {
	if fixedShape {
		return max
	}
	return vr.IntRange(name, 0, max)
}

func buildSwitchMessageFixed(kind int) util.Message {
	fixedShape = true
	m := buildSwitchMessage(kind)
	fixedShape = false
	return m
}

func swMatch() *Match {
	if !fixedShape {
		return buildMatch(2, 0)
	}
	m := NewMatch()
	m.AddField(*buildField(0))
	m.AddField(*buildField(1))
	m.AddField(*buildField(9))
	return m
}

func buildSwitchMessage(kind int) util.Message {
	vr.Note("swmsg", swKindNames[kind])
	switch kind {
	case 0:
		h, _ := common.NewHello(VERSION)
		return h
	case 1:
		e := NewErrorMsg()
		e.Header = NewOfp13Header()
		e.Header.Type = Type_Error
		e.Type, e.Code = vr.U16("etype"), vr.U16("ecode")
		vr.Assume(e.Type != ET_EXPERIMENTER)
		e.Data = *util.NewBuffer(vr.Bytes("edata", swCount("edatalen", 8)))
		e.Header.Length = e.Len()
		return e
	case 2:
		e := NewBundleError()
		e.Header.Type = Type_Error
		e.Code = vr.U16("ecode")
		e.Data = *util.NewBuffer(vr.Bytes("edata", swCount("edatalen", 8)))
		e.Header.Length = e.Len()
		return e
	case 3:
		return NewEchoRequest()
	case 4:
		return NewEchoReply()
	case 5:
		f := NewFeaturesReply()
		copy(f.DPID, vr.Bytes("dpid", 8))
		f.Buffers, f.NumTables, f.AuxilaryId, f.Capabilities, f.Actions = vr.U32("buffers"), vr.U8("ntables"), vr.U8("aux"), vr.U32("caps"), vr.U32("reserved")
		k := swCount("nports", 2)
		for i := 0; i < k; i++ {
			f.Ports = append(f.Ports, *bldPhyPort())
		}
		return f
	case 6:
		c := NewSetConfig()
		c.Header.Type = Type_GetConfigReply
		c.Flags, c.MissSendLen = vr.U16("flags"), vr.U16("misslen")
		return c
	case 7:
		p := NewPacketIn()
		p.BufferId, p.TotalLen, p.Reason, p.TableId, p.Cookie = vr.U32("buffer"), vr.U16("totlen"), vr.U8("reason"), vr.U8("table"), vr.U64("cookie")
		p.Match = *swMatch()
		p.Data = bldEthernetRaw(8)
		p.Header.Length = p.Len()
		return p
	case 8:
		f := NewFlowRemoved()
		f.Header.Type = Type_FlowRemoved
		f.Cookie, f.Priority, f.Reason, f.TableId = vr.U64("cookie"), vr.U16("prio"), vr.U8("reason"), vr.U8("table")
		f.DurationSec, f.DurationNSec, f.IdleTimeout, f.HardTimeout = vr.U32("dsec"), vr.U32("dnsec"), vr.U16("idle"), vr.U16("hard")
		f.PacketCount, f.ByteCount = vr.U64("pkts"), vr.U64("bytes")
		f.Match = *swMatch()
		f.Header.Length = f.Len()
		return f
	case 9:
		p := NewPortStatus()
		p.Header.Type = Type_PortStatus
		p.Reason = vr.U8("reason")
		p.Desc = *bldPhyPort()
		return p
	case 10:
		return headerOfType(Type_BarrierReply)
	case 11:
		r := mpReply(MultipartType_Desc)
		d := NewDescStats()
		copy(d.MfrDesc, vr.Bytes("mfr", 4))
		copy(d.HWDesc, vr.Bytes("hwd", 4))
		copy(d.SWDesc, vr.Bytes("swd", 4))
		copy(d.SerialNum, vr.Bytes("serial", 4))
		copy(d.DPDesc, vr.Bytes("dpd", 4))
		r.Body = append(r.Body, d)
		return r
	case 12:
		r := mpReply(MultipartType_Flow)
		k := swCount("nrec", 2)
		for i := 0; i < k; i++ {
			s := NewFlowStats()
			s.TableId, s.DurationSec, s.DurationNSec, s.Priority = vr.U8("table"), vr.U32("dsec"), vr.U32("dnsec"), vr.U16("prio")
			s.IdleTimeout, s.HardTimeout, s.Flags, s.Cookie = vr.U16("idle"), vr.U16("hard"), vr.U16("fflags"), vr.U64("cookie")
			s.PacketCount, s.ByteCount = vr.U64("pkts"), vr.U64("bytes")
			if fixedShape {
				s.Match = *swMatch()
				ia := NewInstrApplyActions()
				ia.AddAction(NewActionOutput(vr.U32("port")), false)
				s.Instructions = append(s.Instructions, NewInstrGotoTable(vr.U8("table")), ia)
			} else {
				s.Match = *buildMatch(1, 0)
				if vr.Bool("instr") {
					s.Instructions = append(s.Instructions, buildInstr(vr.Choice("ikind", nInstrKinds), 1, 0))
				}
			}
			s.Length = s.Len()
			r.Body = append(r.Body, s)
		}
		return r
	case 13:
		r := mpReply(MultipartType_Aggregate)
		s := NewAggregateStats()
		s.PacketCount, s.ByteCount, s.FlowCount = vr.U64("pkts"), vr.U64("bytes"), vr.U32("flows")
		r.Body = append(r.Body, s)
		return r
	case 14:
		r := mpReply(MultipartType_Table)
		k := swCount("nrec", 2)
		for i := 0; i < k; i++ {
			s := NewTableStats()
			s.TableId, s.ActiveCount, s.LookupCount, s.MatchedCount = vr.U8("table"), vr.U32("active"), vr.U64("lookups"), vr.U64("matched")
			copy(s.Name, vr.Bytes("tname", 4))
			s.Wildcards, s.MaxEntries = vr.U32("wild"), vr.U32("maxent")
			r.Body = append(r.Body, s)
		}
		return r
	case 15:
		r := mpReply(MultipartType_Port)
		k := swCount("nrec", 2)
		for i := 0; i < k; i++ {
			s := NewPortStats()
			s.PortNo, s.RxPackets, s.TxPackets, s.RxBytes, s.TxBytes = vr.U16("port"), vr.U64("rxp"), vr.U64("txp"), vr.U64("rxb"), vr.U64("txb")
			s.RxDropped, s.TxDropped, s.RxErrors, s.TxErrors = vr.U64("rxd"), vr.U64("txd"), vr.U64("rxe"), vr.U64("txe")
			s.RxFrameErr, s.RxOverErr, s.RxCRCErr, s.Collisions = vr.U64("rxf"), vr.U64("rxo"), vr.U64("rxc"), vr.U64("coll")
			r.Body = append(r.Body, s)
		}
		return r
	case 16:
		r := mpReply(MultipartType_Queue)
		k := swCount("nrec", 2)
		for i := 0; i < k; i++ {
			s := &QueueStats{PortNo: vr.U16("port"), QueueId: vr.U32("queue"), TxBytes: vr.U64("txb"), TxPackets: vr.U64("txp"), TxErrors: vr.U64("txe")}
			r.Body = append(r.Body, s)
		}
		return r
	case 17:
		v := NewNXTVendorHeader(Type_TlvTableReply)
		t := &TLVTableReply{MaxSpace: vr.U32("maxspace"), MaxFields: vr.U16("maxfields")}
		k := swCount("nmaps", 2)
		for i := 0; i < k; i++ {
			t.TlvMaps = append(t.TlvMaps, &TLVTableMap{OptClass: vr.U16("class"), OptType: vr.U8("type"), OptLength: vr.U8("len"), Index: vr.U16("index")})
		}
		v.VendorData = t
		return v
	case 18:
		return NewBundleControl(&BundleControl{BundleID: vr.U32("bundle"), Type: vr.U16("btype"), Flags: vr.U16("bflags")})
	case 19:
		if fixedShape {
			return swFlowMod()
		}
		return buildMessage(7)
	case 20:
		return buildMessage(6)
	case 21:
		return NewFeaturesRequest()
	}
	if fixedShape {
		return NewBundleAdd(&BundleAdd{BundleID: vr.U32("bundle"), Flags: vr.U16("bflags"), Message: swFlowMod()})
	}
	return NewBundleAdd(&BundleAdd{BundleID: vr.U32("bundle"), Flags: vr.U16("bflags"), Message: buildMessage(7)})
}

func swFlowMod() *FlowMod {
	f := NewFlowMod()
	f.Cookie, f.Priority, f.OutPort, f.OutGroup = vr.U64("cookie"), vr.U16("prio"), vr.U32("outport"), vr.U32("outgroup")
	f.Match = *swMatch()
	ia := NewInstrApplyActions()
	ia.AddAction(NewActionOutput(vr.U32("port")), false)
	ia.AddAction(NewActionSetField(*buildField(4)), false)
	f.AddInstruction(NewInstrGotoTable(vr.U8("table")))
	f.AddInstruction(ia)
	return f
}
