//go:build verif

package openflow13

// C02 — nested lengths, 8-byte alignment and type codes follow the OpenFlow 1.3 / Nicira wire
// grammar: an independent walker (zz_verif_ref.go) that follows only declared lengths visits
// every element of every encoded message and arrives exactly at its end.
// Inputs: every controller-originated message kind and the richer shapes of C01, builder
// histories with prepend and with children that grow after being added, bundle-add wrapping
// each kind (with and without a property). Bounds as C01 (lists ≤ 2, payload ≤ 8 B).

import (
	"github.com/contiv/libOpenflow/common"
	"github.com/contiv/libOpenflow/util"
	vr "github.com/contiv/libOpenflow/verifrt"
)

func c02walk(m util.Message) {
	b, err := m.MarshalBinary()
	vr.Assert(err == nil, "marshal-ok")
	walkMessage(b)
}

func VerifC02_Message() {
	k := vr.Choice("kind", nMsgKinds)
	vr.Tag("kind", msgKindNames[k])
	c02walk(buildMessage(k))
}

// every action kind (all variants) inside an apply-actions instruction of a flow-mod
func VerifC02_Action() {
	k := vr.Choice("kind", nActionKinds)
	vr.Tag("kind", actionKindNames[k])
	ia := NewInstrApplyActions()
	ia.AddAction(buildAction(k, 2), false)
	f := NewFlowMod()
	f.AddInstruction(ia)
	c02walk(f)
}

// every match-field kind inside a flow-mod match and inside a set-field action
func VerifC02_Field() {
	k := vr.Choice("kind", nFieldKinds)
	vr.Tag("kind", fieldKindNames[k])
	fld := buildField(k)
	f := NewFlowMod()
	f.Match.AddField(*fld)
	ia := NewInstrWriteActions()
	ia.AddAction(NewActionSetField(*fld), false)
	ia.AddAction(NewNXActionRegLoad2(fld), false)
	f.AddInstruction(ia)
	c02walk(f)
}

// fields made by the generic builder (0, 1, 2 and 3 mask arguments) placed in a match and in
// set-field / reg_load2 actions: the TLVs announce what the containers hold
func VerifC02_GenericBuilderField() {
	data := vr.U32("data")
	var fld *MatchField
	var err error
	switch vr.Choice("maskargs", 4) {
	case 0:
		fld, err = NewMatchField[uint32, int]("NXM_NX_REG2", data)
	case 1:
		fld, err = NewMatchField("NXM_NX_REG2", data, vr.IntRange("ofs", 0, 31))
	case 2:
		fld, err = NewMatchField("NXM_NX_REG2", data, 4, 12)
	default:
		fld, err = NewMatchField("NXM_NX_REG2", data, 4, 12, vr.Choice("shiftflag", 2))
	}
	if err != nil || fld == nil {
		return
	}
	f := NewFlowMod()
	f.Match.AddField(*fld)
	ia := NewInstrWriteActions()
	ia.AddAction(NewActionSetField(*fld), false)
	ia.AddAction(NewNXActionRegLoad2(fld), false)
	f.AddInstruction(ia)
	c02walk(f)
}

func VerifC02_FlowModInstructions() {
	f := NewFlowMod()
	f.Command = vr.U8("command")
	k := vr.IntRange("ninstr", 0, 2)
	for i := 0; i < k; i++ {
		f.AddInstruction(buildInstr(vr.Choice("ikind", nInstrKinds), 1, 1))
	}
	c02walk(f)
}

func VerifC02_GroupModBuckets() {
	g := NewGroupMod()
	g.Command = vr.U16("command")
	k := vr.IntRange("nbuckets", 0, 2)
	for i := 0; i < k; i++ {
		g.AddBucket(*buildBucket(1, 1))
	}
	c02walk(g)
}

func VerifC02_PacketOut() {
	p := NewPacketOut()
	p.BufferId = vr.U32("buffer") // data may accompany a buffered packet too
	k := vr.IntRange("npacts", 0, 2)
	for i := 0; i < k; i++ {
		p.AddAction(buildActionShort(1))
	}
	if vr.Bool("hasdata") {
		p.SetData(vr.Bytes("payload", vr.IntRange("paylen", 0, 8)))
	}
	c02walk(p)
}

func VerifC02_BundleAdd() {
	k := vr.Choice("inner", nMsgKinds)
	vr.Tag("inner", msgKindNames[k])
	ba := &BundleAdd{BundleID: vr.U32("bundle"), Flags: vr.U16("bflags"), Message: buildMessage(k)}
	// up to two properties behind the first message kind, at most one behind the others (the
	// product of message shapes and property lists runs past the path budget otherwise)
	maxp := 1
	if k == 0 {
		maxp = 2
	}
	np := vr.IntRange("nprops", 0, maxp)
	for i := 0; i < np; i++ {
		p := NewBundlePropertyExperimenter()
		p.ExperimenterID, p.ExperimenterType = vr.U32("expid"), vr.U32("exptype")
		p.data = vr.Bytes("propdata", []int{0, 4, 3}[vr.Choice("propdatalen", 3)])
		p.Length = p.Len()
		ba.Properties = append(ba.Properties, *p)
	}
	c02walk(NewBundleAdd(ba))
}

func VerifC02_Hello() {
	h, _ := common.NewHello(VERSION)
	k := vr.IntRange("nelems", 0, 2)
	for i := 0; i < k; i++ {
		e := common.NewHelloElemVersionBitmap()
		w := vr.IntRange("nwords", 0, 2)
		for j := 0; j < w; j++ {
			e.Bitmaps = append(e.Bitmaps, vr.U32("bitmap"))
		}
		e.Length = uint16(4 + 4*len(e.Bitmaps)) // the length field excludes the padding
		h.Elements = append(h.Elements, e)
	}
	c02walk(h)
}

// builder histories: children that grow after they were added, prepend, literal buckets
func VerifC02_LateGrowth() {
	a, grow := c06lateChild()
	switch vr.Choice("container", 4) {
	case 0:
		vr.Tag("container", "PacketOut")
		p := NewPacketOut()
		p.BufferId = vr.U32("buffer") // data may accompany a buffered packet too
		p.AddAction(a)
		grow()
		c02walk(p)
	case 1:
		vr.Tag("container", "FlowMod")
		ia := NewInstrApplyActions()
		ia.AddAction(a, false)
		ia.AddAction(NewActionOutput(vr.U32("port")), vr.Bool("prepend"))
		grow()
		f := NewFlowMod()
		f.AddInstruction(ia)
		c02walk(f)
	case 2:
		vr.Tag("container", "GroupMod")
		bk := NewBucket()
		bk.AddAction(a)
		grow()
		g := NewGroupMod()
		g.AddBucket(*bk)
		g.AddBucket(Bucket{Weight: vr.U16("weight"), Actions: []Action{NewActionOutput(vr.U32("port"))}})
		c02walk(g)
	default:
		vr.Tag("container", "ConnTrack")
		ct := NewNXActionConnTrack()
		ct.AddAction(a)
		grow()
		ia := NewInstrApplyActions()
		ia.AddAction(ct, false)
		f := NewFlowMod()
		f.AddInstruction(ia)
		c02walk(f)
	}
}

// nat action: range setters called in any order of up to 3 calls, sized in between (a container
// sizes its children when they are added)
func VerifC02_NatSetterHistory() {
	nat := NewNXActionCTNAT()
	nat.SetSNAT()
	n := vr.IntRange("ncalls", 0, 3)
	used := [6]bool{}
	for i := 0; i < n; i++ {
		c := vr.Choice("setter", 6)
		if used[c] {
			vr.Assume(false)
		}
		used[c] = true
		switch c {
		case 0:
			nat.SetRangeIPv4Min(symIP4("ip4min"))
		case 1:
			nat.SetRangeIPv4Max(symIP4("ip4max"))
		case 2:
			nat.SetRangeIPv6Min(symIP16("ip6min"))
		case 3:
			nat.SetRangeIPv6Max(symIP16("ip6max"))
		case 4:
			p := vr.U16("pmin")
			nat.SetRangeProtoMin(&p)
		default:
			p := vr.U16("pmax")
			nat.SetRangeProtoMax(&p)
		}
		if vr.Bool("sized-in-between") {
			_ = nat.Len()
		}
	}
	ct := NewNXActionConnTrack()
	ct.AddAction(nat)
	ia := NewInstrApplyActions()
	ia.AddAction(ct, false)
	f := NewFlowMod()
	f.AddInstruction(ia)
	c02walk(f)
}
