//go:build verif

package openflow13

import (
	"strings"

	vr "github.com/contiv/libOpenflow/verifrt"
)

// C15 — match-field registry.

func refLookup(name string) (refOxx, bool) {
	for _, r := range refOxxTable {
		if r.name == name {
			return r, true
		}
	}
	return refOxx{}, false
}

func mixedCase(s string) string {
	b := []byte(s)
	for i := range b {
		if i%2 == 1 && b[i] >= 'A' && b[i] <= 'Z' {
			b[i] += 'a' - 'A'
		}
	}
	return string(b)
}

// Every registered name x mask on/off x three spellings: class, field number and width equal the
// reference table; masked lookups double the width and set the mask flag. One harness per chunk of
// the (sorted) reference table so a finding names the key. Names registered by the library but
// missing in the reference are reported by VerifC15_NoUnknownKeys.
func c15CheckName(r refOxx) {
	vr.Tag("name", r.name)
	for _, masked := range []bool{false, true} {
		for sp := 0; sp < 5; sp++ {
			name := r.name
			switch sp {
			case 1:
				name = strings.ToLower(name)
			case 2:
				name = mixedCase(name)
			case 3:
				// upper-case prefix, the rest in lower case (NXM_NX_reg0)
				name = name[:4] + strings.ToLower(name[4:])
			case 4:
				// the other way round (nxm_NX_REG0)
				name = strings.ToLower(name[:4]) + name[4:]
			}
			f, err := FindFieldHeaderByName(name, masked)
			vr.Assert(err == nil, "registered")
			if err != nil {
				return
			}
			vr.Assert(f.Class == r.class, "class")
			vr.Assert(f.Field == r.field, "field-number")
			vr.Assert(f.HasMask == masked, "mask-flag")
			if masked {
				vr.Assert(int(f.Length) == 2*int(r.width), "masked-width-doubled")
			} else {
				vr.Assert(f.Length == r.width, "width")
			}
			vr.Assert(vr.And(f.Value == nil, f.Mask == nil), "fresh-header-has-no-payload")
		}
	}
}

func VerifC15_WidthTable() {
	i := vr.IntRange("row", 0, len(refOxxTable)-1)
	r := refOxxTable[i]
	if _, ok := oxxFieldHeaderMap[r.name]; !ok {
		// names OVS defines but this library does not register are outside the statement
		// ("for all registered names")
		return
	}
	c15CheckName(r)
}

func VerifC15_NoUnknownKeys() {
	n := 0
	for name := range oxxFieldHeaderMap {
		vr.Tag("name", name)
		_, ok := refLookup(name)
		vr.Assert(ok, "registered-name-has-reference-row")
		n++
	}
	vr.Tag("name", "")
	vr.Assert(n >= 100, "registry-not-empty")
}

func VerifC15_UnknownName() {
	_, err := FindFieldHeaderByName("NXM_NX_NO_SUCH_FIELD", vr.Bool("mask"))
	vr.Assert(err != nil, "unknown-name-is-an-error")
}

// Pack/unpack are exact inverses over the whole domain (loop-free, full width: a result for all
// 2^32 words, not a bounded one).
func VerifC15_HeaderPackUnpack() {
	h := &MatchField{Class: vr.U16("class"), Field: vr.U8("field"), HasMask: vr.Bool("hasmask"), Length: vr.U8("length")}
	vr.Assume(h.Field < 128)
	w := h.MarshalHeader()
	var g MatchField
	err := g.UnmarshalHeader([]byte{byte(w >> 24), byte(w >> 16), byte(w >> 8), byte(w)})
	vr.Assert(err == nil, "unpack-ok")
	vr.Assert(g.Class == h.Class, "class-roundtrip")
	vr.Assert(g.Field == h.Field, "field-roundtrip")
	vr.Assert(g.HasMask == h.HasMask, "mask-roundtrip")
	vr.Assert(g.Length == h.Length, "length-roundtrip")
	// layout: class<<16 | field<<9 | mask<<8 | length
	vr.Assert(uint16(w>>16) == h.Class, "class-in-upper-16")
	vr.Assert(uint8(w>>9)&0x7f == h.Field, "field-in-bits-9..15")
	vr.Assert((w>>8&1 == 1) == h.HasMask, "mask-in-bit-8")
	vr.Assert(uint8(w) == h.Length, "length-in-low-8")
	vr.Observe("w", w)
}

func VerifC15_HeaderUnpackPack() {
	data := vr.Bytes("word", 4)
	// the target may have been used before (a decode loop's scratch value, a lookup result): what
	// it held must not show in what is unpacked into it
	g := MatchField{Class: vr.U16("old-class"), Field: vr.U8("old-field"), HasMask: vr.Bool("old-hasmask"), Length: vr.U8("old-length")}
	err := g.UnmarshalHeader(data)
	vr.Assert(err == nil, "unpack-ok")
	w := g.MarshalHeader()
	vr.Assert(vr.And(vr.And(byte(w>>24) == data[0], byte(w>>16) == data[1]), vr.And(byte(w>>8) == data[2], byte(w) == data[3])), "pack(unpack(w))==w")
}

// Independence: lookups return fresh values; modifying one never shows in another or in the registry.
func VerifC15_Independence() {
	i := vr.IntRange("row", 0, 7)
	name := []string{"NXM_NX_REG0", "OXM_OF_ETH_DST", "NXM_NX_CT_STATE", "OXM_OF_IN_PORT", "NXM_OF_IP_SRC", "NXM_NX_TUN_ID", "NXM_NX_XXREG3", "OXM_OF_VLAN_VID"}[i]
	m1, m2 := vr.Bool("mask1"), vr.Bool("mask2")
	r1, e1 := FindFieldHeaderByName(name, m1)
	r2, e2 := FindFieldHeaderByName(name, m2)
	vr.Assert(vr.And(e1 == nil, e2 == nil), "both-found")
	vr.Assert(r1 != r2, "distinct-pointers")
	vr.NoAlias(r1, r2, "results-share-no-memory")
	vr.NoAlias(r1, oxxFieldHeaderMap[name], "result-shares-nothing-with-registry")
	c2, f2, l2, h2 := r2.Class, r2.Field, r2.Length, r2.HasMask
	// scribble over every field of the first result
	r1.Class, r1.Field, r1.Length, r1.HasMask = vr.U16("c"), vr.U8("f"), vr.U8("l"), vr.Bool("h")
	r1.Value = newUint32Message(vr.U32("v"))
	r1.Mask = newUint32Message(vr.U32("m"))
	vr.Assert(vr.And(vr.And(r2.Class == c2, r2.Field == f2), vr.And(r2.Length == l2, r2.HasMask == h2)), "second-result-unchanged")
	vr.Assert(vr.And(r2.Value == nil, r2.Mask == nil), "second-result-payload-untouched")
	r3, _ := FindFieldHeaderByName(name, m2)
	vr.Assert(vr.And(vr.And(r3.Class == c2, r3.Field == f2), vr.And(r3.Length == l2, r3.HasMask == h2)), "later-lookup-unchanged")
	vr.Assert(vr.And(r3.Value == nil, r3.Mask == nil), "later-lookup-payload-clean")
}
