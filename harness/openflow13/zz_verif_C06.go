//go:build verif

package openflow13

// C06 — the size a value reports equals the bytes its encoder produces, and a container's
// encoding is its header followed by the complete, unmodified encodings of its children in order
// plus zero padding. Bounds: ≤ 2 children per container (quick) / 3 (thorough), generic child
// sizes 0..24 bytes; everything else (field values, flags, lengths of variable parts) symbolic.

import (
	"github.com/contiv/libOpenflow/util"
	vr "github.com/contiv/libOpenflow/verifrt"
)

func c06maxKids() int {
	if vr.Thorough() {
		return 3
	}
	return 2
}

// sized asserts Len()==len(bytes) for one value and returns the bytes.
func c06sized(m util.Message) []byte {
	b, err := m.MarshalBinary()
	vr.Assert(err == nil, "marshal-ok")
	vr.Assert(int(m.Len()) == len(b), "len==bytes")
	return b
}

func VerifC06_Field() {
	k := vr.Choice("kind", nFieldKinds)
	vr.Tag("kind", fieldKindNames[k])
	f := buildField(k)
	b := c06sized(f)
	v, _ := f.Value.MarshalBinary()
	vr.Assert(int(f.Value.Len()) == len(v), "value-len==bytes")
	vr.Assert(len(b) >= 4+len(v), "value-fits")
	vr.Assert(vr.BytesEq(b[4:4+len(v)], v), "value-intact")
	if f.HasMask {
		m, _ := f.Mask.MarshalBinary()
		vr.Assert(int(f.Mask.Len()) == len(m), "mask-len==bytes")
		vr.Assert(len(b) == 4+len(v)+len(m), "value+mask-fill-the-field")
		vr.Assert(vr.BytesEq(b[4+len(v):], m), "mask-intact")
	} else {
		vr.Assert(len(b) == 4+len(v), "value-fills-the-field")
	}
}

func VerifC06_Action() {
	k := vr.Choice("kind", nActionKinds)
	vr.Tag("kind", actionKindNames[k])
	a := buildAction(k, 2)
	c06sized(a)
}

func VerifC06_Instr() {
	k := vr.Choice("kind", nInstrKinds)
	vr.Tag("kind", instrKindNames[k])
	in := buildInstr(k, c06maxKids(), 1)
	c06sized(in)
}

func VerifC06_Message() {
	k := vr.Choice("kind", nMsgKinds)
	vr.Tag("kind", msgKindNames[k])
	m := buildMessage(k)
	c06sized(m)
}

// a learn spec is its 2-byte header, then the source (an immediate of 2*ceil(n_bits/16) bytes —
// OVS nicira-ext.h — or a 6-byte field reference), then the 6-byte destination unless it is an
// output spec; nothing may be cut off.
func VerifC06_LearnSpec() {
	s := buildLearnSpec()
	hb, _ := s.Header.MarshalBinary()
	kids := [][]byte{hb}
	if s.Header.src {
		kids = append(kids, s.SrcValue[:2*((int(s.Header.nBits)+15)/16)])
	} else {
		sb, _ := s.SrcField.MarshalBinary()
		kids = append(kids, sb)
	}
	if !s.Header.output {
		db, _ := s.DstField.MarshalBinary()
		kids = append(kids, db)
	}
	b := c06sized(s)
	c06children(b, 0, kids, false)
}

// children of a match sit whole, in order, right after the 4-byte header; the rest is zero.
func VerifC06_MatchChildren() {
	m := NewMatch()
	k := vr.IntRange("nfields", 0, c06maxKids())
	var kids [][]byte
	for i := 0; i < k; i++ {
		f := buildFieldShort(1)
		fb, _ := f.MarshalBinary()
		kids = append(kids, fb)
		m.AddField(*f)
	}
	b := c06sized(m)
	c06children(b, 4, kids, true)
}

// c06children asserts that kids appear back to back from offset off and (optionally) that every
// byte after them is zero.
func c06children(b []byte, off int, kids [][]byte, zeroTail bool) {
	for _, kb := range kids {
		vr.Assert(off+len(kb) <= len(b), "child-fits")
		vr.Assert(vr.BytesEq(b[off:off+len(kb)], kb), "child-intact")
		off += len(kb)
	}
	if zeroTail {
		vr.Assert(allZero(b, off, len(b)), "padding-zero")
		vr.Assert(len(b)-off < 8, "padding<8")
	} else {
		vr.Assert(off == len(b), "children-fill-container")
	}
}

func VerifC06_SetFieldChild() {
	k := vr.Choice("kind", nFieldKinds)
	vr.Tag("kind", fieldKindNames[k])
	f := buildField(k)
	fb, _ := f.MarshalBinary()
	a := NewActionSetField(*f)
	b := c06sized(a)
	c06children(b, 4, [][]byte{fb}, true)
}

func VerifC06_RegLoad2Child() {
	k := vr.Choice("kind", nFieldKinds)
	vr.Tag("kind", fieldKindNames[k])
	f := buildField(k)
	fb, _ := f.MarshalBinary()
	a := NewNXActionRegLoad2(f)
	b := c06sized(a)
	c06children(b, 10, [][]byte{fb}, true)
}

func c06actionKids(add func(Action), w int) [][]byte {
	k := vr.IntRange("nkids", 0, c06maxKids())
	var kids [][]byte
	for i := 0; i < k; i++ {
		a := buildActionShort(w)
		ab, _ := a.MarshalBinary()
		kids = append(kids, ab)
		add(a)
	}
	return kids
}

func VerifC06_InstrActionsChildren() {
	ia := NewInstrApplyActions()
	kids := c06actionKids(func(a Action) { ia.AddAction(a, false) }, 1)
	b := c06sized(ia)
	c06children(b, 8, kids, false)
}

func VerifC06_BucketChildren() {
	bk := NewBucket()
	kids := c06actionKids(func(a Action) { bk.AddAction(a) }, 1)
	b := c06sized(bk)
	c06children(b, 16, kids, true)
}

func VerifC06_PacketOutChildren() {
	p := NewPacketOut()
	p.BufferId = vr.U32("buffer") // data may accompany a buffered packet too
	kids := c06actionKids(func(a Action) { p.AddAction(a) }, 1)
	if vr.Bool("hasdata") {
		pl := vr.Bytes("payload", vr.IntRange("paylen", 0, 8))
		p.SetData(pl)
		kids = append(kids, pl)
	}
	b := c06sized(p)
	c06children(b, 24, kids, false)
}

func VerifC06_ConnTrackChildren() {
	ct := NewNXActionConnTrack()
	kids := c06actionKids(func(a Action) { ct.AddAction(a) }, 1)
	b := c06sized(ct)
	c06children(b, 24, kids, false)
}

func VerifC06_LearnChildren() {
	l := NewNXActionLearn()
	k := vr.IntRange("nspecs", 0, c06maxKids())
	var kids [][]byte
	for i := 0; i < k; i++ {
		s := buildLearnSpec()
		sb, _ := s.MarshalBinary()
		kids = append(kids, sb)
		l.LearnSpecs = append(l.LearnSpecs, s)
	}
	b := c06sized(l)
	c06children(b, 32, kids, true)
}

func VerifC06_FlowModChildren() {
	f := NewFlowMod()
	f.Command = vr.U8("command")
	f.Match = *buildMatch(2, 1)
	mb, _ := f.Match.MarshalBinary()
	kids := [][]byte{mb}
	k := vr.IntRange("ninstr", 0, c06maxKids())
	for i := 0; i < k; i++ {
		in := buildInstr(vr.Choice("ikind", nInstrKinds), 1, 0)
		ib, _ := in.MarshalBinary()
		if f.Command != FC_DELETE && f.Command != FC_DELETE_STRICT {
			kids = append(kids, ib)
		}
		f.AddInstruction(in)
	}
	b := c06sized(f)
	c06children(b, 48, kids, false)
}

func VerifC06_GroupModChildren() {
	g := NewGroupMod()
	g.Command = vr.U16("command")
	k := vr.IntRange("nbuckets", 0, c06maxKids())
	var kids [][]byte
	for i := 0; i < k; i++ {
		bk := buildBucket(2, 0)
		bb, _ := bk.MarshalBinary()
		if g.Command != OFPGC_DELETE {
			kids = append(kids, bb)
		}
		g.AddBucket(*bk)
	}
	b := c06sized(g)
	c06children(b, 16, kids, false)
}

func VerifC06_BundleAddChildren() {
	k := vr.Choice("inner", nMsgKinds)
	vr.Tag("inner", msgKindNames[k])
	inner := buildMessage(k)
	ib, _ := inner.MarshalBinary()
	kids := [][]byte{ib}
	ba := &BundleAdd{BundleID: vr.U32("bundle"), Flags: vr.U16("bflags"), Message: inner}
	np := 0
	if k == 6 {
		np = vr.IntRange("nprops", 0, 2) // property lists behind one small embedded kind (set-config)
	}
	for i := 0; i < np; i++ {
		p := NewBundlePropertyExperimenter()
		p.ExperimenterID, p.ExperimenterType = vr.U32("expid"), vr.U32("exptype")
		p.data = vr.Bytes("propdata", []int{0, 3, 4}[vr.Choice("propdatalen", 3)])
		pb, _ := p.MarshalBinary()
		kids = append(kids, pb)
		ba.Properties = append(ba.Properties, *p)
	}
	bb := c06sized(ba)
	c06children(bb, 8, kids, false)
	v := NewBundleAdd(ba)
	vb := c06sized(v)
	c06children(vb, 16, [][]byte{bb}, false)
}

func VerifC06_MultipartChildren() {
	kind := 11 + vr.Choice("mp", 4)
	r := buildMessage(kind).(*MultipartRequest)
	body, _ := r.Body.MarshalBinary()
	b := c06sized(r)
	c06children(b, 16, [][]byte{body}, false)
}

// ---- generic children: a child of arbitrary reported size L and arbitrary bytes ----

// genAction is an Action whose size and bytes are symbolic. Containers must embed whatever
// their children produce; this generalises the per-kind checks over every present and future
// child kind that keeps Len()==len(bytes).
type genAction struct {
	hdr ActionHeader
	b   []byte
}

func (g *genAction) Header() *ActionHeader                   { return &g.hdr }
func (g *genAction) Len() uint16                             { return uint16(len(g.b)) }
func (g *genAction) MarshalBinary() (data []byte, err error) { return g.b, nil }
func (g *genAction) UnmarshalBinary(data []byte) error       { return nil }

func newGenAction() *genAction {
	max := 16
	if vr.Thorough() {
		max = 24
	}
	n := vr.IntRange("glen", 0, max)
	return &genAction{hdr: ActionHeader{Type: vr.U16("gtype"), Length: uint16(n)}, b: vr.Bytes("gbytes", n)}
}

func c06genKids(add func(Action)) [][]byte {
	k := vr.IntRange("nkids", 0, c06maxKids())
	var kids [][]byte
	for i := 0; i < k; i++ {
		g := newGenAction()
		kids = append(kids, g.b)
		add(g)
	}
	return kids
}

func VerifC06_GenericInstrActions() {
	ia := NewInstrWriteActions()
	kids := c06genKids(func(a Action) { ia.AddAction(a, vr.Bool("prepend")) })
	_ = kids
	// with prepend the order is reversed per call; recompute the expected order from the list itself
	var exp [][]byte
	for _, a := range ia.Actions {
		exp = append(exp, a.(*genAction).b)
	}
	b := c06sized(ia)
	c06children(b, 8, exp, false)
}

func VerifC06_GenericBucket() {
	bk := NewBucket()
	kids := c06genKids(func(a Action) { bk.AddAction(a) })
	b := c06sized(bk)
	c06children(b, 16, kids, true)
}

func VerifC06_GenericPacketOut() {
	p := NewPacketOut()
	p.BufferId = vr.U32("buffer") // data may accompany a buffered packet too
	kids := c06genKids(func(a Action) { p.AddAction(a) })
	b := c06sized(p)
	c06children(b, 24, kids, false)
}

func VerifC06_GenericConnTrack() {
	ct := NewNXActionConnTrack()
	kids := c06genKids(func(a Action) { ct.AddAction(a) })
	b := c06sized(ct)
	c06children(b, 24, kids, false)
}

// genMsg: a util.Message with symbolic size and bytes (vendor payloads, bundled messages, packet data).
type genMsg struct{ b []byte }

func (g *genMsg) Len() uint16                             { return uint16(len(g.b)) }
func (g *genMsg) MarshalBinary() (data []byte, err error) { return g.b, nil }
func (g *genMsg) UnmarshalBinary(data []byte) error       { return nil }

func newGenMsg() *genMsg {
	max := 16
	if vr.Thorough() {
		max = 24
	}
	return &genMsg{b: vr.Bytes("gmsg", vr.IntRange("gmlen", 0, max))}
}

func VerifC06_GenericVendor() {
	g := newGenMsg()
	v := NewNXTVendorHeader(vr.U32("exptype"))
	v.VendorData = g
	b := c06sized(v)
	c06children(b, 16, [][]byte{g.b}, false)
}

func VerifC06_GenericBundleAdd() {
	g := newGenMsg()
	ba := &BundleAdd{BundleID: vr.U32("bundle"), Flags: vr.U16("bflags"), Message: g}
	b := c06sized(ba)
	c06children(b, 8, [][]byte{g.b}, false)
}

func VerifC06_GenericMatchField() {
	v, m := newGenMsg(), newGenMsg()
	f := &MatchField{Class: vr.U16("class"), Field: vr.U8("field"), HasMask: vr.Bool("hasmask"), Value: v, Mask: m}
	b := c06sized(f)
	kids := [][]byte{v.b}
	if f.HasMask {
		kids = append(kids, m.b)
	}
	c06children(b, 4, kids, false)
}

func VerifC06_GenericMultipart() {
	g := newGenMsg()
	r := &MultipartRequest{Header: NewOfp13Header(), Type: vr.U16("mptype"), Flags: vr.U16("flags"), Body: g}
	b := c06sized(r)
	c06children(b, 16, [][]byte{g.b}, false)
}

// ---- builder histories in which a child grows after it was added to its container ----
// (conntrack action receiving nested actions, note action receiving its text): the container's
// encoding must still hold the child's final encoding, whole.

func c06lateChild() (a Action, grow func()) {
	if vr.Choice("late", 2) == 0 {
		ct := NewNXActionConnTrack()
		return ct, func() { ct.AddAction(buildActionShort(0)) }
	}
	n := NewNXActionNote()
	return n, func() { n.Note = vr.Bytes("note", 7) }
}

func VerifC06_LateGrowthPacketOut() {
	p := NewPacketOut()
	p.BufferId = vr.U32("buffer") // data may accompany a buffered packet too
	a, grow := c06lateChild()
	p.AddAction(a)
	grow()
	pl := vr.Bytes("payload", 4)
	p.SetData(pl)
	ab, _ := a.MarshalBinary()
	b := c06sized(p)
	c06children(b, 24, [][]byte{ab, pl}, false)
}

func VerifC06_LateGrowthInstr() {
	ia := NewInstrApplyActions()
	a, grow := c06lateChild()
	ia.AddAction(a, false)
	ia.AddAction(NewActionOutput(vr.U32("port")), vr.Bool("prepend"))
	grow()
	f := NewFlowMod()
	f.AddInstruction(ia)
	ib, _ := ia.MarshalBinary()
	mb, _ := f.Match.MarshalBinary()
	b := c06sized(f)
	c06children(b, 48, [][]byte{mb, ib}, false)
	ab, _ := a.MarshalBinary()
	vr.Assert(int(a.Len()) == len(ab), "grown-child-len==bytes")
}

func VerifC06_LateGrowthBucket() {
	bk := NewBucket()
	a, grow := c06lateChild()
	bk.AddAction(a)
	grow()
	g := NewGroupMod()
	g.AddBucket(*bk)
	grow2 := vr.Bool("grow-after-addbucket")
	if grow2 {
		grow()
	}
	// a bucket written as a literal, the way a caller without NewBucket would
	g.AddBucket(Bucket{Weight: vr.U16("weight"), Actions: []Action{NewActionOutput(vr.U32("port"))}})
	var kids [][]byte
	for i := range g.Buckets {
		bb, _ := g.Buckets[i].MarshalBinary()
		kids = append(kids, bb)
	}
	b := c06sized(g)
	c06children(b, 16, kids, false)
}
