//go:build verif

package openflow13

// C12 — a message returned by Parse shares no memory with the buffer it was parsed from.
// Two formulations on every frame: (i) solver: encode the parsed message, overwrite every cell
// of the input buffer with fresh symbols (Havoc), encode again and assert the two encodings and
// the exported fields are equal — a retained sub-slice makes the second encoding depend on the
// fresh symbols; (ii) exact alias check on the concrete heap graph reachable from the message.
// Frames: the library's encodings of every switch-originated message kind (all shapes of the
// C05 builders), every action kind and every match-field kind, packet-in carrying Ethernet /
// VLAN / ARP / IPv4+options / IPv6+extension headers / ICMP / UDP, bundle-add wrapping a
// flow-mod and carrying a property, plus arbitrary framed bytes that happen to parse.

import (
	"github.com/contiv/libOpenflow/protocol"
	"github.com/contiv/libOpenflow/util"
	vr "github.com/contiv/libOpenflow/verifrt"
)

func c12check(frame []byte) {
	buf := make([]byte, len(frame))
	copy(buf, frame)
	m, err := Parse(buf)
	if err != nil || m == nil {
		vr.Assume(false)
	}
	b1, err1 := m.MarshalBinary()
	c1 := make([]byte, len(b1))
	copy(c1, b1)
	vr.NoAlias(m, buf, "message-shares-no-memory-with-input")
	vr.Havoc(buf)
	b2, err2 := m.MarshalBinary()
	vr.Assert((err1 == nil) == (err2 == nil), "re-encoding-error-unchanged")
	vr.Assert(len(b2) == len(c1), "re-encoding-size-unchanged")
	vr.Assert(vr.BytesEq(b2, c1), "re-encoding-unchanged-by-overwriting-input")
}

func VerifC12_Messages() {
	k := vr.Choice("kind", nSwKinds)
	vr.Tag("kind", swKindNames[k])
	m := buildSwitchMessage(k)
	b, err := m.MarshalBinary()
	if err != nil {
		vr.Assume(false)
	}
	c12check(b)
}

func VerifC12_Actions() {
	k := vr.Choice("akind", nActionKinds)
	vr.Tag("kind", actionKindNames[k])
	c12check(c07flowModWith(c07action(k)))
}

func VerifC12_Fields() {
	k := vr.Choice("fkind", nFieldKinds-2)
	vr.Tag("kind", fieldKindNames[k])
	c12check(c07flowRemovedWith(k, k, vr.Choice("masked", 2) == 1))
}

var c12payloads = []string{"raw", "vlan-raw", "arp", "arp-long-hardware-address", "ipv4-udp-options", "ipv4-icmp", "ipv4-raw", "ipv6-udp", "ipv6-hbh-routing-fragment-icmp", "ipv6-raw"}

func c12ethernet(kind int) protocol.Ethernet {
	e := protocol.NewEthernet()
	e.VLANID = protocol.VLAN{}
	copy(e.HWDst, vr.Bytes("ethdst", 6))
	copy(e.HWSrc, vr.Bytes("ethsrc", 6))
	udp := func() *protocol.UDP {
		u := protocol.NewUDP()
		u.PortSrc, u.PortDst, u.Data = vr.U16("sport"), vr.U16("dport"), vr.Bytes("udpdata", 5)
		return u
	}
	icmp := func() *protocol.ICMP {
		i := protocol.NewICMP()
		i.Type, i.Code, i.Data = vr.U8("icmptype"), vr.U8("icmpcode"), vr.Bytes("icmpdata", 5)
		return i
	}
	ip4 := func(proto uint8, optWords int, d util.Message) *protocol.IPv4 {
		ip := protocol.NewIPv4()
		ip.Version, ip.IHL, ip.Protocol, ip.TTL = 4, uint8(5+optWords), proto, vr.U8("ttl")
		copy(ip.NWSrc, vr.Bytes("ip4src", 4))
		copy(ip.NWDst, vr.Bytes("ip4dst", 4))
		if optWords > 0 {
			ip.Options = *util.NewBuffer(vr.Bytes("ip4options", 4*optWords))
		}
		ip.Data = d
		return ip
	}
	ip6 := func(next uint8, d util.Message) *protocol.IPv6 {
		return &protocol.IPv6{Version: 6, NextHeader: next, HopLimit: vr.U8("hoplimit"), NWSrc: vr.Bytes("ip6src", 16), NWDst: vr.Bytes("ip6dst", 16), Data: d}
	}
	switch kind {
	case 0:
		e.Ethertype, e.Data = 0x88b5, util.NewBuffer(vr.Bytes("raw", 7))
	case 1:
		e.VLANID = protocol.VLAN{TPID: 0x8100, PCP: 3, VID: 100}
		e.Ethertype, e.Data = 0x88b5, util.NewBuffer(vr.Bytes("raw", 7))
	case 2:
		a, _ := protocol.NewARP(protocol.Type_Request)
		copy(a.HWSrc, vr.Bytes("arphwsrc", 6))
		copy(a.IPSrc, vr.Bytes("arpipsrc", 4))
		copy(a.HWDst, vr.Bytes("arphwdst", 6))
		copy(a.IPDst, vr.Bytes("arpipdst", 4))
		e.Ethertype, e.Data = protocol.ARP_MSG, a
	case 3:
		// a non-Ethernet hardware type with 20-byte addresses (e.g. InfiniBand)
		a, _ := protocol.NewARP(protocol.Type_Reply)
		a.HWType, a.HWLength = 32, 20
		a.HWSrc, a.HWDst = vr.Bytes("arphwsrc", 20), vr.Bytes("arphwdst", 20)
		copy(a.IPSrc, vr.Bytes("arpipsrc", 4))
		copy(a.IPDst, vr.Bytes("arpipdst", 4))
		e.Ethertype, e.Data = protocol.ARP_MSG, a
	case 4:
		e.Ethertype, e.Data = protocol.IPv4_MSG, ip4(protocol.Type_UDP, 2, udp())
	case 5:
		e.Ethertype, e.Data = protocol.IPv4_MSG, ip4(protocol.Type_ICMP, 0, icmp())
	case 6:
		e.Ethertype, e.Data = protocol.IPv4_MSG, ip4(99, 1, util.NewBuffer(vr.Bytes("raw", 7)))
	case 7:
		e.Ethertype, e.Data = protocol.IPv6_MSG, ip6(protocol.Type_UDP, udp())
	case 8:
		ip := ip6(protocol.Type_HBH, icmp())
		ip.HbhHeader = &protocol.HopByHopHeader{NextHeader: protocol.Type_Routing, HEL: 0, Options: []*protocol.Option{{Type: vr.U8("opttype"), Length: 4, Data: vr.Bytes("optdata", 4)}}}
		ip.RoutingHeader = &protocol.RoutingHeader{NextHeader: protocol.Type_Fragment, HEL: 1, RoutingType: vr.U8("rtype"), SegmentsLeft: vr.U8("segleft"), Data: util.NewBuffer(vr.Bytes("rdata", 12))}
		ip.FragmentHeader = &protocol.FragmentHeader{NextHeader: protocol.Type_IPv6ICMP, FragmentOffset: vr.U16("fragoff") & 0x1fff, Identification: vr.U32("fragid")}
		e.Ethertype, e.Data = protocol.IPv6_MSG, ip
	default:
		e.Ethertype, e.Data = protocol.IPv6_MSG, ip6(99, util.NewBuffer(vr.Bytes("raw", 7)))
	}
	return *e
}

func VerifC12_PacketIn() {
	k := vr.Choice("payload", len(c12payloads))
	vr.Tag("payload", c12payloads[k])
	p := NewPacketIn()
	p.BufferId, p.TotalLen, p.Cookie = vr.U32("buffer"), vr.U16("totlen"), vr.U64("cookie")
	maskMode = 1
	p.Match.AddField(*buildField(0))
	p.Match.AddField(*buildField(34))
	p.Data = c12ethernet(k)
	p.Header.Length = p.Len()
	b, err := p.MarshalBinary()
	if err != nil {
		vr.Assume(false)
	}
	c12check(b)
}

// bundle-add wrapping a flow-mod whose match holds every field kind, and carrying a property
func VerifC12_BundleAdd() {
	maskMode = 1
	f := NewFlowMod()
	for k := 0; k < nFieldKinds-2; k++ {
		f.Match.AddField(*buildField(k))
	}
	ia := NewInstrApplyActions()
	ia.AddAction(c07action(10), false)
	ia.AddAction(c07action(23), false)
	ia.AddAction(c07action(24), false)
	f.AddInstruction(ia)
	ba := &BundleAdd{BundleID: vr.U32("bundle"), Flags: vr.U16("bflags"), Message: f}
	if vr.Bool("property") {
		p := NewBundlePropertyExperimenter()
		p.ExperimenterID, p.ExperimenterType = vr.U32("expid"), vr.U32("exptype")
		// the property carries 4 bytes of experimenter data; the sender announces the exact
		// length, or more than is present
		p.data = vr.Bytes("propdata", 4)
		p.Length = p.Len() + uint16(vr.Choice("claimed-extra", 2)*4)
		ba.Properties = append(ba.Properties, *p)
	}
	b, err := NewBundleAdd(ba).MarshalBinary()
	if err != nil {
		vr.Assume(false)
	}
	c12check(b)
}

// arbitrary framed bytes that happen to parse
func VerifC12_Framed() {
	t := vr.IntRange("type", 0, 30)
	n := vr.IntRange("n", 8, c07pick(24, 40))
	data := vr.Bytes("data", n)
	vr.Assume(data[1] == uint8(t))
	vr.Assume(data[2] == uint8(n>>8))
	vr.Assume(data[3] == uint8(n))
	c12check(data)
}
