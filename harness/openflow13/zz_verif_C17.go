//go:build verif

package openflow13

// C17 — the generic match-field builder places value and mask correctly or reports an error.
// Instantiations: uint32 → 4-byte register, uint64 → 8-byte metadata, int64 → 8-byte tunnel id,
// []byte → 6-byte Ethernet address, net.IP → 16-byte IPv6 address, *big.Int → 16-byte xxreg /
// ct_label. Data is symbolic at full width; window offset and width are symbolic integers in
// [-2, 130]; the shift flag of the 3-argument form is symbolic. The reference is written bit by
// bit: value bit p = data bit (p - offset) for p in the window, mask bit p = 1 exactly inside it.
// Bound from the math/big model: 256-bit magnitudes (offsets above 130 are outside the claim).

import (
	"math/big"
	"net"

	vr "github.com/contiv/libOpenflow/verifrt"
)

// c17bit: bit p of the 128-bit number (hi, lo), 0 outside [0,128). Branch-free: a shift count
// of 64 or more (which is what a negative p becomes as uint) yields 0 in Go.
func c17bit(lo, hi uint64, p int) bool {
	return ((lo>>uint(p))|(hi>>uint(p-64)))&1 == 1
}

// c17expect returns the expected value and mask bytes (big-endian, w bytes) for data (hi,lo)
// placed at [ofs, ofs+width) — shifted there if shift is set, taken as already in place otherwise.
func c17expect(lo, hi uint64, ofs, width, w int, shift bool) (val, mask []byte) {
	val, mask = make([]byte, w), make([]byte, w)
	for p := 0; p < 8*w; p++ {
		in := vr.And(p >= ofs, p < ofs+width)
		var vb bool
		if shift {
			vb = vr.And(in, c17bit(lo, hi, p-ofs))
		} else {
			vb = c17bit(lo, hi, p)
		}
		i := w - 1 - p/8
		val[i] |= vr.Ite8(vb, 1<<uint(p%8), 0)
		mask[i] |= vr.Ite8(in, 1<<uint(p%8), 0)
	}
	return
}

// c17fits: data (shifted if requested) has no bit outside the window
func c17fits(lo, hi uint64, ofs, width int, shift bool) bool {
	ok := true
	for p := 0; p < 128; p++ {
		if shift {
			ok = vr.And(ok, vr.Or(p < width, !c17bit(lo, hi, p)))
		} else {
			ok = vr.And(ok, vr.Or(vr.And(p >= ofs, p < ofs+width), !c17bit(lo, hi, p)))
		}
	}
	return ok
}

func c17window() (ofs, width int) {
	ofs, width = vr.Int("ofs"), vr.Int("width")
	vr.Assume(ofs >= -2 && ofs <= 130)
	vr.Assume(width >= -2 && width <= 130)
	return
}

// c17check compares the builder's result with the reference for a masked request.
func c17check(f *MatchField, err error, lo, hi uint64, negative bool, ofs, width, w int, shift bool) {
	inside := vr.And(vr.And(ofs >= 0, width >= 1), ofs+width <= 8*w)
	var fits bool
	var ev, em []byte
	if w <= 8 {
		// fields of at most 64 bits: the reference in two shifts. (1<<width)-1 is all ones for
		// width >= 64 because Go shifts by >= 64 give 0.
		m := (uint64(1)<<uint(width) - 1) << uint(ofs)
		v := lo
		if shift {
			v = lo << uint(ofs)
			fits = lo>>uint(width) == 0
		} else {
			fits = lo&^m == 0
		}
		ev, em = beBytes(v, w), beBytes(m, w)
	} else {
		fits = c17fits(lo, hi, ofs, width, shift)
	}
	representable := vr.And(vr.And(inside, !negative), fits)
	if !representable {
		vr.Assert(err != nil, "unrepresentable-input-is-an-error")
		return
	}
	vr.Assert(err == nil, "representable-input-accepted")
	if err != nil {
		return
	}
	if w > 8 {
		ev, em = c17expect(lo, hi, ofs, width, w, shift)
	}
	v, _ := f.Value.MarshalBinary()
	m, _ := f.Mask.MarshalBinary()
	vr.Assert(f.HasMask, "has-mask")
	vr.Assert(len(v) == w && len(m) == w, "value-and-mask-sizes==field-width")
	vr.Assert(int(f.Length) == 2*w, "payload-length==2*width")
	vr.Assert(vr.BytesEq(v, ev), "value-placed-at-window")
	vr.Assert(vr.BytesEq(m, em), "mask-covers-exactly-the-window")
	outside := true
	for i := range v {
		outside = vr.And(outside, v[i]&^m[i] == 0)
	}
	vr.Assert(outside, "no-value-bit-outside-mask")
}

// 32-bit register: also the same bytes as the dedicated register constructor
func VerifC17_Reg32() {
	data := vr.U32("data")
	ofs, width := c17window()
	f, err := NewMatchField("NXM_NX_REG3", data, ofs, width)
	c17check(f, err, uint64(data), 0, false, ofs, width, 4, true)
	if err == nil && ofs >= 0 && width >= 1 && ofs+width <= 32 {
		want, _ := NewRegMatchField(3, data<<uint(ofs), NewNXRangeByOfsNBits(ofs, width)).MarshalBinary()
		got, _ := f.MarshalBinary()
		vr.Assert(vr.BytesEq(got, want), "same-bytes-as-register-constructor")
	}
}

func VerifC17_Reg32ShiftFlag() {
	data := vr.U32("data")
	ofs, width := c17window()
	flag := vr.Choice("shiftflag", 2)
	f, err := NewMatchField("nxm_nx_reg0", data, ofs, width, flag)
	c17check(f, err, uint64(data), 0, false, ofs, width, 4, flag == 1)
}

func VerifC17_Metadata64() {
	data := vr.U64("data")
	ofs, width := c17window()
	f, err := NewMatchField("OXM_OF_METADATA", data, ofs, width)
	c17check(f, err, data, 0, false, ofs, width, 8, true)
}

// signed data: a negative value cannot be represented
func VerifC17_TunID64Signed() {
	data := int64(vr.U64("data"))
	ofs, width := c17window()
	f, err := NewMatchField("NXM_NX_TUN_ID", data, ofs, width)
	c17check(f, err, uint64(data), 0, data < 0, ofs, width, 8, true)
}

func c17be64(b []byte) uint64 {
	var v uint64
	for _, x := range b {
		v = v<<8 | uint64(x)
	}
	return v
}

func VerifC17_EthSrcBytes() {
	data := vr.Bytes("data", 6)
	before := make([]byte, 6)
	copy(before, data)
	ofs, width := c17window()
	var f *MatchField
	var err error
	shift := true
	if vr.Bool("three-args") {
		flag := vr.Choice("shiftflag", 2)
		shift = flag == 1
		f, err = NewMatchField("OXM_OF_ETH_SRC", net.HardwareAddr(data), ofs, width, flag)
	} else {
		f, err = NewMatchField("OXM_OF_ETH_SRC", data, ofs, width)
	}
	c17check(f, err, c17be64(before), 0, false, ofs, width, 6, shift)
	vr.Assert(vr.BytesEq(data, before), "caller's-bytes-unmodified")
}

func VerifC17_XXReg128Big() {
	raw := vr.Bytes("data", 16)
	data := new(big.Int).SetBytes(raw)
	before := new(big.Int).Set(data)
	// 128-bit field: the window is one of a list of concrete (offset, width) pairs — boundaries
	// of the 64-bit limbs, byte-unaligned windows, the whole field, and windows reaching or
	// crossing the top of the field, negative values — with the 128-bit data fully symbolic
	// (symbolic windows at this width exceed the solver's 60 s cap; thorough adds more pairs)
	pairs := [][2]int{{0, 128}, {0, 1}, {127, 1}, {60, 8}, {64, 64}, {63, 2}, {96, 8}, {100, 28}, {100, 29}, {128, 1}, {0, 129}, {-1, 8}, {8, -1}, {8, 0}}
	if vr.Thorough() {
		pairs = append(pairs, [][2]int{{1, 127}, {7, 57}, {33, 64}, {120, 8}, {121, 8}, {0, 64}, {64, 1}, {65, 63}, {130, 1}, {0, 130}}...)
	}
	pr := pairs[vr.Choice("window", len(pairs))]
	ofs, width := pr[0], pr[1]
	name := []string{"NXM_NX_XXREG0", "NXM_NX_CT_LABEL"}[vr.Choice("field", 2)]
	f, err := NewMatchField(name, data, ofs, width)
	c17check(f, err, c17be64(raw[8:]), c17be64(raw[:8]), false, ofs, width, 16, true)
	vr.Assert(data.Cmp(before) == 0, "caller's-big.Int-unmodified")
}

// unmasked forms: the value fills the field, no mask; a value wider than the field is an error
func VerifC17_Unmasked() {
	switch vr.Choice("form", 5) {
	case 0:
		vr.Tag("form", "uint32->reg")
		data := vr.U32("data")
		f, err := NewMatchField[uint32, int]("NXM_NX_REG5", data)
		vr.Assert(err == nil, "accepted")
		v, _ := f.Value.MarshalBinary()
		vr.Assert(!f.HasMask && f.Length == 4 && len(v) == 4 && uint64(data) == c17be64(v), "value")
	case 1:
		vr.Tag("form", "uint64->reg")
		data := vr.U64("data")
		f, err := NewMatchField[uint64, int]("NXM_NX_REG5", data)
		if data > 0xffffffff {
			vr.Assert(err != nil, "too-wide-is-an-error")
		} else {
			vr.Assert(err == nil, "accepted")
			v, _ := f.Value.MarshalBinary()
			vr.Assert(len(v) == 4 && data == c17be64(v), "value")
		}
	case 2:
		vr.Tag("form", "int64->metadata")
		data := int64(vr.U64("data"))
		f, err := NewMatchField[int64, int]("OXM_OF_METADATA", data)
		if data < 0 {
			vr.Assert(err != nil, "negative-is-an-error")
		} else {
			vr.Assert(err == nil, "accepted")
			v, _ := f.Value.MarshalBinary()
			vr.Assert(len(v) == 8 && uint64(data) == c17be64(v), "value")
		}
	case 3:
		vr.Tag("form", "net.IP->ipv6")
		ip := net.IP(vr.Bytes("data", 16))
		f, err := NewMatchField[net.IP, int]("OXM_OF_IPV6_SRC", ip)
		vr.Assert(err == nil, "accepted")
		v, _ := f.Value.MarshalBinary()
		vr.Assert(len(v) == 16 && vr.BytesEq(v, ip), "value")
		want, _ := NewIpv6SrcField(ip, nil).MarshalBinary()
		got, _ := f.MarshalBinary()
		vr.Assert(vr.BytesEq(got, want), "same-bytes-as-typed-constructor")
	default:
		vr.Tag("form", "unknown-name")
		_, err := NewMatchField[uint32, int]("NXM_NX_NO_SUCH_FIELD", vr.U32("data"))
		vr.Assert(err != nil, "unknown-field-is-an-error")
	}
}

// the one-argument mask form has no stated window: value within mask, sizes, no panic
func VerifC17_OneMaskArgument() {
	data := vr.U32("data")
	ofs := vr.Int("ofs")
	vr.Assume(ofs >= 0 && ofs <= 40)
	f, err := NewMatchField("NXM_NX_REG7", data, ofs)
	if err == nil {
		v, _ := f.Value.MarshalBinary()
		m, _ := f.Mask.MarshalBinary()
		vr.Assert(len(v) == 4 && len(m) == 4, "sizes==field-width")
		ok := true
		for i := range v {
			ok = vr.And(ok, v[i]&^m[i] == 0)
		}
		vr.Assert(ok, "no-value-bit-outside-mask")
	}
}

// more than three mask arguments is rejected
func VerifC17_TooManyMaskArguments() {
	_, err := NewMatchField("NXM_NX_REG7", vr.U32("data"), 0, 8, 1, 0)
	vr.Assert(err != nil, "rejected")
}
