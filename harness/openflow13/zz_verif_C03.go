//go:build verif

package openflow13

// C03 — every value put into a message through the API appears in the encoding at the offset,
// width and byte order the specifications assign to it; optional parts appear exactly when their
// presence flags say so; list elements appear in the order they were added.
// Oracle: reference writers (zz_verif_ref.go, layouts of DESIGN.md Appendix A) fed with the
// same constructor arguments; the assertion is byte-for-byte equality, so offset, width, byte
// order, flags and order are all covered by one comparison per element.
// Every field is symbolic at full width (the solver covers all boundary values at once).

import (
	"github.com/contiv/libOpenflow/util"
	vr "github.com/contiv/libOpenflow/verifrt"
	"net"
)

func c03eq(m util.Message, ref []byte, what string) {
	b, err := m.MarshalBinary()
	vr.Assert(err == nil, what+":marshal-ok")
	vr.Assert(len(b) == len(ref), what+":size-as-specified")
	vr.Assert(vr.BytesEq(b, ref), what+":bytes-as-specified")
}

// every match-field kind, with and without mask
func VerifC03_Field() {
	k := vr.Choice("kind", nFieldKinds)
	vr.Tag("kind", fieldKindNames[k])
	f := buildField(k)
	w := &refW{}
	refOXM(w)
	c03eq(f, w.b, "oxm")
	if wd := refFieldWidth(k); wd != 0 {
		vr.Assert(len(argV) == wd, "oxm:payload-width-as-specified")
	}
}

// a match: type 1, length without padding, fields in the order added, zero padding to 8
func VerifC03_Match() {
	m := NewMatch()
	w := &refW{}
	w.u16(1)
	w.u16(0)
	k := vr.IntRange("nfields", 0, 3)
	for i := 0; i < k; i++ {
		m.AddField(*buildFieldShort(1))
		refOXM(w)
	}
	w.setU16(2, uint16(len(w.b)))
	w.padTo8()
	c03eq(m, w.b, "match")
}

// ---- actions ----

// c03action builds action kind k with fresh symbolic arguments and writes its specified bytes to w.
// rich: every variant of the kind (all nat flag / range subsets, conntrack flags and zone forms,
// up to two nested conntrack actions, note lengths 0..9, up to two learn specs); otherwise a few
// presets (used for actions inside lists).
func c03action(k int, w *refW, depth int, rich bool) Action {
	start := len(w.b)
	nx := func(sub uint16) {
		w.u16(0xffff)
		w.u16(0) // length, patched at the end
		w.u32(0x2320)
		w.u16(sub)
	}
	var a Action
	switch k {
	case 0:
		port := vr.U32("port")
		a = NewActionOutput(port)
		w.u16(0)
		w.u16(16)
		w.u32(port)
		w.u16(256) // the constructor's default max_len
		w.zeros(6)
	case 1:
		q := vr.U32("queue")
		a = NewActionSetQueue(q)
		w.u16(21)
		w.u16(8)
		w.u32(q)
	case 2:
		g := vr.U32("group")
		a = NewActionGroup(g)
		w.u16(22)
		w.u16(8)
		w.u32(g)
	case 3:
		a = NewActionDecNwTtl()
		w.u16(24)
		w.u16(8)
		w.zeros(4)
	case 4, 5, 7:
		et := vr.U16("ethertype")
		switch k {
		case 4:
			a = NewActionPushVlan(et)
			w.u16(17)
		case 5:
			a = NewActionPushMpls(et)
			w.u16(19)
		default:
			a = NewActionPopMpls(et)
			w.u16(20)
		}
		w.u16(8)
		w.u16(et)
		w.zeros(2)
	case 6:
		a = NewActionPopVlan()
		w.u16(18)
		w.u16(8)
		w.zeros(4)
	case 8:
		f := buildFieldShort(1)
		a = NewActionSetField(*f)
		w.u16(25)
		w.u16(0)
		refOXM(w)
		w.padTo8()
	case 9:
		c, n, id := vr.U8("clause"), vr.U8("nclause"), vr.U32("id")
		a = NewNXActionConjunction(c, n, id)
		nx(34)
		w.u8(c)
		w.u8(n)
		w.u32(id)
	case 10:
		ct := NewNXActionConnTrack()
		flags := uint16(0)
		if !rich || vr.Bool("commit") {
			ct.Commit()
			flags |= 1
		}
		if rich && vr.Bool("force") {
			ct.Force()
			flags |= 2
		}
		table := vr.U8("table")
		ct.Table(table)
		nx(35)
		w.u16(flags)
		zr := rich && vr.Bool("zonerange")
		if rich && vr.Bool("zone-set-before") {
			// the zone was first given the other way round: the later setter decides (an
			// immediate zone has zone_src 0, a zone taken from a field has the field there)
			if zr {
				ct.ZoneImm(vr.U16("zone0"))
			} else {
				ct.ZoneRange(regHeader(false), NewNXRange(0, 15))
			}
		}
		if zr {
			first, last := int(vr.U8("first")), int(vr.U8("last"))
			vr.Assume(first <= last)
			vr.Assume(last <= 31)
			ct.ZoneRange(regHeader(false), NewNXRange(first, last))
			w.u32(0x00010204) // NXM_NX_REG1: class 1, field 1, length 4
			w.u16(uint16(first)<<6 | uint16(last-first))
		} else {
			zone := vr.U16("zone")
			ct.ZoneImm(zone)
			w.u32(0)
			w.u16(zone)
		}
		w.u8(table)
		w.zeros(3)
		w.u16(0) // alg
		if depth > 0 {
			n := vr.IntRange("nct", 0, 2)
			for i := 0; i < n; i++ {
				ct.AddAction(c03action([]int{17, 0, 11}[vr.Choice("ctkind", 3)], w, depth-1, false))
			}
		}
		a = ct
	case 11:
		on, v := vr.U16("ofsnbits"), vr.U64("value")
		a = NewNXActionRegLoad(on, regHeader(false), v)
		nx(7)
		w.u16(on)
		w.u32(0x00010204)
		w.u64(v)
	case 12:
		nb, so, do := vr.U16("nbits"), vr.U16("srcofs"), vr.U16("dstofs")
		a = NewNXActionRegMove(nb, so, do, regHeader(false), regHeader(false))
		nx(6)
		w.u16(nb)
		w.u16(so)
		w.u16(do)
		w.u32(0x00010204)
		w.u32(0x00010204)
	case 13:
		ip := vr.U16("inport")
		a = NewNXActionResubmit(ip)
		nx(1)
		w.u16(ip)
		w.u8(0) // ignored by the receiver for this subtype; OVS itself sends 0 here
		w.zeros(3)
	case 14, 15, 16:
		ip, tb := vr.U16("inport"), vr.U8("table")
		switch k {
		case 14:
			a = NewNXActionResubmitTableAction(ip, tb)
			nx(14)
		case 15:
			a = NewNXActionResubmitTableCT(ip, tb)
			nx(44)
		default:
			ip = 0xfff8 // OFPP_IN_PORT
			a = NewNXActionResubmitTableCTNoInPort(tb)
			nx(44)
		}
		w.u16(ip)
		w.u8(tb)
		w.zeros(3)
	case 17:
		nat := NewNXActionCTNAT()
		flags := uint16(0)
		// rich, quick tier: either the flag combinations with preset ranges, or all 64 range
		// subsets with fixed flags (thorough: the full product)
		varyFlags := rich && (vr.Thorough() || vr.Bool("vary-flags"))
		varyRanges := rich && (vr.Thorough() || !varyFlags)
		if !varyFlags || vr.Bool("snat") {
			nat.SetSNAT()
			flags |= 1
		} else {
			nat.SetDNAT()
			flags |= 2
		}
		if varyFlags && vr.Bool("persistent") {
			nat.SetPersistent()
			flags |= 4
		}
		if varyFlags && vr.Bool("hash") {
			nat.SetProtoHash()
			flags |= 8
		} else if varyFlags && vr.Bool("random") {
			nat.SetRandom()
			flags |= 16
		}
		present := uint16(0)
		body := &refW{}
		// presets outside the rich variant: ipv4-min only / ipv6-max + proto-min / everything
		preset := -1
		if !varyRanges {
			preset = vr.Choice("natpreset", 3)
		}
		has := func(name string, bit int) bool {
			switch preset {
			case -1:
				return vr.Bool(name)
			case 0:
				return bit == 0
			case 1:
				return bit == 3 || bit == 4
			}
			return true
		}
		if has("r4min", 0) {
			ip := symIP4("ip4min")
			nat.SetRangeIPv4Min(ip)
			present |= 1
			body.raw(ip)
		}
		if has("r4max", 1) {
			ip := symIP4("ip4max")
			nat.SetRangeIPv4Max(ip)
			present |= 2
			body.raw(ip)
		}
		if has("r6min", 2) {
			ip := symIP16("ip6min")
			nat.SetRangeIPv6Min(ip)
			present |= 4
			body.raw(ip)
		}
		if has("r6max", 3) {
			ip := symIP16("ip6max")
			nat.SetRangeIPv6Max(ip)
			present |= 8
			body.raw(ip)
		}
		if has("rpmin", 4) {
			p := vr.U16("pmin")
			nat.SetRangeProtoMin(&p)
			present |= 16
			body.u16(p)
		}
		if has("rpmax", 5) {
			p := vr.U16("pmax")
			nat.SetRangeProtoMax(&p)
			present |= 32
			body.u16(p)
		}
		a = nat
		nx(36)
		w.zeros(2)
		w.u16(flags)
		w.u16(present)
		w.raw(body.b)
		w.padTo8()
	case 18, 19:
		on, ml := vr.U16("ofsnbits"), uint16(0xffff)
		if k == 18 {
			a = NewOutputFromField(regHeader(false), on)
		} else {
			ml = vr.U16("maxlen")
			a = NewOutputFromFieldWithMaxLen(regHeader(false), on, ml)
		}
		nx(15)
		w.u16(on)
		w.u32(0x00010204)
		w.u16(ml)
		w.zeros(6)
	case 20:
		a = NewNXActionCTClear()
		nx(43)
		w.zeros(6)
	case 21:
		a = NewNXActionDecTTL()
		nx(18)
		w.zeros(6)
	case 22:
		n := 1
		if rich {
			n = vr.IntRange("nids", 0, 4)
		}
		ids := make([]uint16, n)
		nx(21)
		w.u16(uint16(n))
		w.zeros(4)
		for i := range ids {
			ids[i] = vr.U16("id")
			w.u16(ids[i])
		}
		w.padTo8()
		a = NewNXActionDecTTLCntIDs(uint16(n), ids...)
	case 23:
		l := NewNXActionLearn()
		l.IdleTimeout, l.HardTimeout, l.Priority, l.Cookie = vr.U16("idle"), vr.U16("hard"), vr.U16("prio"), vr.U64("cookie")
		l.Flags, l.TableID, l.FinIdleTimeout, l.FinHardTimeout = vr.U16("flags"), vr.U8("table"), vr.U16("finidle"), vr.U16("finhard")
		nx(16)
		w.u16(l.IdleTimeout)
		w.u16(l.HardTimeout)
		w.u16(l.Priority)
		w.u64(l.Cookie)
		w.u16(l.Flags)
		w.u8(l.TableID)
		w.u8(0)
		w.u16(l.FinIdleTimeout)
		w.u16(l.FinHardTimeout)
		n := 1
		if rich {
			n = vr.IntRange("nspecs", 0, 2)
		}
		for i := 0; i < n; i++ {
			l.LearnSpecs = append(l.LearnSpecs, c03learnSpec(w))
		}
		w.padTo8()
		a = l
	case 24:
		nl := 3
		if rich {
			nl = vr.IntRange("notelen", 0, 9)
		}
		note := vr.Bytes("note", nl)
		n := NewNXActionNote()
		n.Note = note
		a = n
		nx(8)
		w.raw(note)
		w.padTo8()
	case 25:
		f := buildFieldShort(1)
		a = NewNXActionRegLoad2(f)
		nx(33)
		refOXM(w)
		w.padTo8()
	default:
		id, ml, reason := vr.U16("ctrlid"), vr.U16("maxlen"), vr.U8("reason")
		c := NewNXActionController(id)
		c.MaxLen, c.Reason = ml, reason
		a = c
		nx(20)
		w.u16(ml)
		w.u16(id)
		w.u8(reason)
		w.u8(0)
	}
	if k >= 8 {
		w.setU16(start+2, uint16(len(w.b)-start))
	}
	return a
}

// c03learnSpec: header(2) = n_bits | src-is-immediate<<13 | dst-kind<<11, then the source
// (immediate of 2*ceil(n_bits/16) bytes, or field header(4) ofs(2)), then the destination
// field reference unless it is an output spec.
func c03learnSpec(w *refW) *NXLearnSpec {
	kind := vr.Choice("spec", 5)
	nbits := vr.U16("nbits")
	vr.Assume(nbits <= 1023)
	vr.Assume(nbits >= 1)
	so, do := vr.U16("srcofs"), vr.U16("dstofs")
	src := &NXLearnSpecField{regHeader(false), so}
	dst := &NXLearnSpecField{regHeader(false), do}
	imm := vr.Bytes("imm", 128)
	var s *NXLearnSpec
	var immediate bool
	var dstKind uint16
	switch kind {
	case 0:
		s, immediate, dstKind = &NXLearnSpec{Header: NewLearnHeaderMatchFromValue(nbits), SrcValue: imm, DstField: dst}, true, 0
	case 1:
		s, immediate, dstKind = &NXLearnSpec{Header: NewLearnHeaderMatchFromField(nbits), SrcField: src, DstField: dst}, false, 0
	case 2:
		s, immediate, dstKind = &NXLearnSpec{Header: NewLearnHeaderLoadFromField(nbits), SrcField: src, DstField: dst}, false, 1
	case 3:
		s, immediate, dstKind = &NXLearnSpec{Header: NewLearnHeaderLoadFromValue(nbits), SrcValue: imm, DstField: dst}, true, 1
	default:
		s, immediate, dstKind = &NXLearnSpec{Header: NewLearnHeaderOutputFromField(nbits), SrcField: src}, false, 2
	}
	h := nbits | dstKind<<11
	if immediate {
		h |= 1 << 13
	}
	w.u16(h)
	if immediate {
		w.raw(imm[:2*((int(nbits)+15)/16)])
	} else {
		w.u32(0x00010204)
		w.u16(so)
	}
	if dstKind != 2 {
		w.u32(0x00010204)
		w.u16(do)
	}
	return s
}

func VerifC03_Action() {
	k := vr.Choice("kind", nActionKinds)
	vr.Tag("kind", actionKindNames[k])
	w := &refW{}
	a := c03action(k, w, 1, true)
	c03eq(a, w.b, "action")
}

func VerifC03_LearnSpec() {
	w := &refW{}
	s := c03learnSpec(w)
	c03eq(s, w.b, "learn-spec")
}

// ---- instructions ----

func c03instr(k int, w *refW, maxActs int) Instruction {
	start := len(w.b)
	switch k {
	case 0:
		t := vr.U8("table")
		w.u16(1)
		w.u16(8)
		w.u8(t)
		w.zeros(3)
		return NewInstrGotoTable(t)
	case 1:
		md, mk := vr.U64("metadata"), vr.U64("metamask")
		w.u16(2)
		w.u16(24)
		w.zeros(4)
		w.u64(md)
		w.u64(mk)
		return NewInstrWriteMetadata(md, mk)
	}
	var ia *InstrActions
	if k == 2 {
		ia = NewInstrWriteActions()
		w.u16(3)
	} else {
		ia = NewInstrApplyActions()
		w.u16(4)
	}
	w.u16(0)
	w.zeros(4)
	n := vr.IntRange("nacts", 0, maxActs)
	for i := 0; i < n; i++ {
		ia.AddAction(c03action(actionShort[vr.Choice("akind", 5)], w, 0, false), false)
	}
	w.setU16(start+2, uint16(len(w.b)-start))
	return ia
}

func VerifC03_Instr() {
	k := vr.Choice("kind", nInstrKinds)
	vr.Tag("kind", instrKindNames[k])
	w := &refW{}
	in := c03instr(k, w, 2)
	c03eq(in, w.b, "instruction")
}

// prepend puts the action in front
func VerifC03_InstrPrepend() {
	ia := NewInstrApplyActions()
	w1, w2 := &refW{}, &refW{}
	a1 := c03action(0, w1, 0, false)
	a2 := c03action(2, w2, 0, false)
	ia.AddAction(a1, false)
	ia.AddAction(a2, true)
	w := &refW{}
	w.u16(4)
	w.u16(uint16(8 + len(w1.b) + len(w2.b)))
	w.zeros(4)
	w.raw(w2.b)
	w.raw(w1.b)
	c03eq(ia, w.b, "instruction")
}

// ---- messages ----

func c03header(w *refW, typ uint8, xid uint32) {
	w.u8(4)
	w.u8(typ)
	w.u16(0) // patched
	w.u32(xid)
}

func c03finish(w *refW) { w.setU16(2, uint16(len(w.b))) }

func c03match(w *refW, max int) *Match {
	m := NewMatch()
	start := len(w.b)
	w.u16(1)
	w.u16(0)
	k := vr.IntRange("nfields", 0, max)
	for i := 0; i < k; i++ {
		m.AddField(*buildFieldShort(0))
		refOXM(w)
	}
	w.setU16(start+2, uint16(len(w.b)-start))
	w.padTo8()
	return m
}

func VerifC03_FlowMod() {
	f := NewFlowMod()
	f.Cookie, f.CookieMask, f.TableId, f.Command = vr.U64("cookie"), vr.U64("cookiemask"), vr.U8("table"), vr.U8("command")
	f.IdleTimeout, f.HardTimeout, f.Priority, f.BufferId = vr.U16("idle"), vr.U16("hard"), vr.U16("prio"), vr.U32("buffer")
	f.OutPort, f.OutGroup, f.Flags = vr.U32("outport"), vr.U32("outgroup"), vr.U16("flags")
	w := &refW{}
	c03header(w, 14, f.Xid)
	w.u64(f.Cookie)
	w.u64(f.CookieMask)
	w.u8(f.TableId)
	w.u8(f.Command)
	w.u16(f.IdleTimeout)
	w.u16(f.HardTimeout)
	w.u16(f.Priority)
	w.u32(f.BufferId)
	w.u32(f.OutPort)
	w.u32(f.OutGroup)
	w.u16(f.Flags)
	w.zeros(2)
	f.Match = *c03match(w, 1)
	isDelete := f.Command == FC_DELETE || f.Command == FC_DELETE_STRICT
	k := vr.IntRange("ninstr", 0, 2)
	for i := 0; i < k; i++ {
		iw := &refW{}
		f.AddInstruction(c03instr(vr.Choice("ikind", nInstrKinds), iw, 1))
		if !isDelete {
			w.raw(iw.b) // delete commands carry no instructions
		}
	}
	c03finish(w)
	c03eq(f, w.b, "flow-mod")
}

func VerifC03_GroupMod() {
	g := NewGroupMod()
	g.Command, g.Type, g.GroupId = vr.U16("command"), vr.U8("gtype"), vr.U32("group")
	w := &refW{}
	c03header(w, 15, g.Xid)
	w.u16(g.Command)
	w.u8(g.Type)
	w.u8(0)
	w.u32(g.GroupId)
	k := vr.IntRange("nbuckets", 0, 2)
	for i := 0; i < k; i++ {
		bk := NewBucket()
		bk.Weight, bk.WatchPort, bk.WatchGroup = vr.U16("weight"), vr.U32("watchport"), vr.U32("watchgroup")
		bw := &refW{}
		bw.u16(0)
		bw.u16(bk.Weight)
		bw.u32(bk.WatchPort)
		bw.u32(bk.WatchGroup)
		bw.zeros(4)
		n := vr.IntRange("nbacts", 0, 2)
		for j := 0; j < n; j++ {
			bk.AddAction(c03action(actionShort[vr.Choice("akind", 3)], bw, 0, false))
		}
		bw.setU16(0, uint16(len(bw.b)))
		g.AddBucket(*bk)
		if g.Command != OFPGC_DELETE {
			w.raw(bw.b) // delete carries no buckets
		}
	}
	c03finish(w)
	c03eq(g, w.b, "group-mod")
}

func VerifC03_PacketOut() {
	p := NewPacketOut()
	p.BufferId, p.InPort = vr.U32("buffer"), vr.U32("inport")
	w := &refW{}
	c03header(w, 13, p.Xid)
	w.u32(p.BufferId)
	w.u32(p.InPort)
	w.u16(0)
	w.zeros(6)
	k := vr.IntRange("npacts", 0, 2)
	for i := 0; i < k; i++ {
		p.AddAction(c03action(actionShort[vr.Choice("akind", 5)], w, 0, false))
	}
	w.setU16(16, uint16(len(w.b)-24))
	if vr.Bool("hasdata") {
		pl := vr.Bytes("payload", vr.IntRange("paylen", 0, 8))
		p.SetData(pl)
		w.raw(pl)
	}
	c03finish(w)
	c03eq(p, w.b, "packet-out")
}

func VerifC03_SmallMessages() {
	w := &refW{}
	var m util.Message
	switch vr.Choice("kind", 9) {
	case 0:
		vr.Tag("kind", "PortMod")
		p := NewPortMod(int(vr.U32("port")))
		hw := vr.Bytes("hw", 6)
		switch vr.Choice("hwaddr", 3) {
		case 0:
			copy(p.HWAddr, hw)
		case 1:
			// the address left unset (a literal PortMod, or "any port address"): six zero bytes on the wire
			p.HWAddr = nil
			hw = make([]byte, 6)
		default:
			// a 3-byte prefix assigned: zero-filled to the 6-byte slot, later fields stay where they are
			p.HWAddr = net.HardwareAddr(hw[:3:3])
			hw = []byte{hw[0], hw[1], hw[2], 0, 0, 0}
		}
		p.Config, p.Mask, p.Advertise = vr.U32("config"), vr.U32("mask"), vr.U32("advertise")
		c03header(w, 16, p.Xid)
		w.u32(p.PortNo)
		w.zeros(4)
		w.raw(hw)
		w.zeros(2)
		w.u32(p.Config)
		w.u32(p.Mask)
		w.u32(p.Advertise)
		w.zeros(4)
		m = p
	case 1:
		vr.Tag("kind", "SetConfig")
		c := NewSetConfig()
		c.Flags, c.MissSendLen = vr.U16("flags"), vr.U16("misslen")
		c03header(w, 9, c.Xid)
		w.u16(c.Flags)
		w.u16(c.MissSendLen)
		m = c
	case 2:
		vr.Tag("kind", "SetControllerID")
		id := vr.U16("ctrlid")
		v := NewSetControllerID(id)
		c03header(w, 4, v.Header.Xid)
		w.u32(0x2320)
		w.u32(20)
		w.zeros(6)
		w.u16(id)
		m = v
	case 3:
		vr.Tag("kind", "TLVTableMod")
		cmd := vr.U16("command")
		k := vr.IntRange("nmaps", 0, 2)
		var maps []*TLVTableMap
		body := &refW{}
		for i := 0; i < k; i++ {
			mp := &TLVTableMap{OptClass: vr.U16("class"), OptType: vr.U8("type"), OptLength: vr.U8("len"), Index: vr.U16("index")}
			maps = append(maps, mp)
			body.u16(mp.OptClass)
			body.u8(mp.OptType)
			body.u8(mp.OptLength)
			body.u16(mp.Index)
			body.zeros(2)
		}
		v := NewTLVTableModMessage(NewTLVTableMod(cmd, maps))
		c03header(w, 4, v.Header.Xid)
		w.u32(0x2320)
		w.u32(24)
		w.u16(cmd)
		w.zeros(6)
		w.raw(body.b)
		m = v
	case 4:
		vr.Tag("kind", "BundleControl")
		bc := &BundleControl{BundleID: vr.U32("bundle"), Type: vr.U16("btype"), Flags: vr.U16("bflags")}
		v := NewBundleControl(bc)
		c03header(w, 4, v.Header.Xid)
		w.u32(0x4f4e4600)
		w.u32(2300)
		w.u32(bc.BundleID)
		w.u16(bc.Type)
		w.u16(bc.Flags)
		m = v
	case 5:
		vr.Tag("kind", "BundleAdd")
		c := NewSetConfig()
		c.Flags, c.MissSendLen = vr.U16("flags"), vr.U16("misslen")
		ba := &BundleAdd{BundleID: vr.U32("bundle"), Flags: vr.U16("bflags"), Message: c}
		v := NewBundleAdd(ba)
		c03header(w, 4, v.Header.Xid)
		w.u32(0x4f4e4600)
		w.u32(2301)
		w.u32(ba.BundleID)
		w.zeros(2)
		w.u16(ba.Flags)
		w.u8(4)
		w.u8(9)
		w.u16(12)
		w.u32(c.Xid)
		w.u16(c.Flags)
		w.u16(c.MissSendLen)
		m = v
	case 6:
		vr.Tag("kind", "MultipartFlowRequest")
		r := &MultipartRequest{Header: NewOfp13Header(), Type: MultipartType_Flow, Flags: vr.U16("flags")}
		r.Header.Type = Type_MultiPartRequest
		b := NewFlowStatsRequest()
		b.TableId, b.OutPort, b.OutGroup, b.Cookie, b.CookieMask = vr.U8("table"), vr.U32("outport"), vr.U32("outgroup"), vr.U64("cookie"), vr.U64("cookiemask")
		c03header(w, 18, r.Xid)
		w.u16(1)
		w.u16(r.Flags)
		w.zeros(4)
		w.u8(b.TableId)
		w.zeros(3)
		w.u32(b.OutPort)
		w.u32(b.OutGroup)
		w.zeros(4)
		w.u64(b.Cookie)
		w.u64(b.CookieMask)
		b.Match = *c03match(w, 2)
		r.Body = b
		m = r
	case 7:
		vr.Tag("kind", "MultipartAggregateRequest")
		r := &MultipartRequest{Header: NewOfp13Header(), Type: MultipartType_Aggregate, Flags: vr.U16("flags")}
		r.Header.Type = Type_MultiPartRequest
		b := NewAggregateStatsRequest()
		b.TableId, b.OutPort, b.OutGroup, b.Cookie, b.CookieMask = vr.U8("table"), vr.U32("outport"), vr.U32("outgroup"), vr.U64("cookie"), vr.U64("cookiemask")
		c03header(w, 18, r.Xid)
		w.u16(2)
		w.u16(r.Flags)
		w.zeros(4)
		w.u8(b.TableId)
		w.zeros(3)
		w.u32(b.OutPort)
		w.u32(b.OutGroup)
		w.zeros(4)
		w.u64(b.Cookie)
		w.u64(b.CookieMask)
		b.Match = *c03match(w, 2)
		r.Body = b
		m = r
	default:
		vr.Tag("kind", "MultipartDescRequest")
		r := &MultipartRequest{Header: NewOfp13Header(), Type: MultipartType_Desc, Flags: vr.U16("flags")}
		r.Header.Type = Type_MultiPartRequest
		c03header(w, 18, r.Xid)
		w.u16(0)
		w.u16(r.Flags)
		w.zeros(4)
		m = r
	}
	c03finish(w)
	c03eq(m, w.b, "message")
}

// OpenFlow 1.3 port / queue statistics requests: port_no is 32 bits (§7.3.5.6, §7.3.5.8)
func VerifC03_PortQueueStatsRequest() {
	w := &refW{}
	r := &MultipartRequest{Header: NewOfp13Header(), Flags: vr.U16("flags")}
	r.Header.Type = Type_MultiPartRequest
	c03header(w, 18, r.Xid)
	if vr.Bool("queue") {
		vr.Tag("kind", "MultipartQueueRequest")
		r.Type = MultipartType_Queue
		b := NewQueueStatsRequest()
		b.PortNo, b.QueueId = vr.U16("port"), vr.U32("queue")
		r.Body = b
		w.u16(5)
		w.u16(r.Flags)
		w.zeros(4)
		w.u32(uint32(b.PortNo))
		w.u32(b.QueueId)
	} else {
		vr.Tag("kind", "MultipartPortRequest")
		r.Type = MultipartType_Port
		b := NewPortStatsRequest()
		b.PortNo = vr.U16("port")
		r.Body = b
		w.u16(4)
		w.u16(r.Flags)
		w.zeros(4)
		w.u32(uint32(b.PortNo))
		w.zeros(4)
	}
	c03finish(w)
	c03eq(r, w.b, "message")
}
