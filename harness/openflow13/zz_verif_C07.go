//go:build verif

package openflow13

// C07 — Parse is total: any byte string gives a message or an error; no panic escapes, every
// library loop exits within N+2 iterations (unwinding assertion, N = input bytes), no single
// allocation exceeds 64 KiB + 16 N bytes (element count × element size).
// Families: flat (nothing assumed), framed (length field == bytes handed over, what the stream
// guarantees), and concrete context + symbolic region for the deep decoders.
// Bounds: flat N ≤ 20 (quick) / 32 (thorough); framed N ≤ 40 / 64; regions 16–32 B / 32–48 B.

import (
	vr "github.com/contiv/libOpenflow/verifrt"
)

func c07run(data []byte) {
	vr.LoopBound(len(data) + 2)
	vr.AllocLimit(65536 + 16*len(data))
	m, err := Parse(data)
	vr.Assert(m != nil || err != nil, "message-or-error")
}

// c07sizes: quick explores the listed region sizes (the sizes at which some decoder's fixed
// part starts or ends), thorough every size from 0 to max.
func c07sizes(max int, quick ...int) int {
	if vr.Thorough() {
		return vr.IntRange("region", 0, max)
	}
	return quick[vr.Choice("region", len(quick))]
}

func c07pick(q, t int) int {
	if vr.Thorough() {
		return t
	}
	return q
}

func VerifC07_Flat() {
	n := vr.IntRange("n", 0, c07pick(20, 32))
	c07run(vr.Bytes("data", n))
}

// framed by type: the type byte is concrete per path (28 codes + one out-of-range), the length
// field equals the buffer length, everything else is symbolic.
func VerifC07_Framed() {
	t := vr.IntRange("type", 0, 30)
	n := vr.IntRange("n", 8, c07pick(24, 40))
	data := vr.Bytes("data", n)
	vr.Assume(data[1] == uint8(t))
	vr.Assume(data[2] == uint8(n>>8))
	vr.Assume(data[3] == uint8(n))
	c07run(data)
}

// c07frame builds a frame: 8-byte header of the given type with the right length, a concrete
// prefix, then a symbolic region.
func c07frame(typ uint8, prefix []byte, region int) []byte {
	n := 8 + len(prefix) + region
	data := make([]byte, n)
	data[0], data[1], data[2], data[3] = 4, typ, uint8(n>>8), uint8(n)
	copy(data[4:8], vr.Bytes("xid", 4))
	copy(data[8:], prefix)
	copy(data[8+len(prefix):], vr.Bytes("region", region))
	return data
}

// match region inside a flow-removed message (40 fixed bytes, then the match)
func VerifC07_MatchRegion() {
	r := vr.IntRange("region", 0, c07pick(12, 16))
	c07run(c07frame(Type_FlowRemoved, make([]byte, 40), r))
}

// match + payload region inside packet-in (16 fixed bytes, match, 2 pad, Ethernet frame)
func VerifC07_PacketInRegion() {
	r := vr.IntRange("region", 0, c07pick(12, 16))
	c07run(c07frame(Type_PacketIn, make([]byte, 16), r))
}

// packet-in with a well-formed empty match, then a symbolic Ethernet payload
func VerifC07_PacketInPayload() {
	r := vr.IntRange("region", 0, c07pick(32, 64))
	prefix := make([]byte, 16+8+2)
	prefix[16+1], prefix[16+3] = 1, 4 // match type 1 (OXM), length 4
	c07run(c07frame(Type_PacketIn, prefix, r))
}

// packet-in carrying Ethernet / IPv6 / a hop-by-hop header of 264 bytes (HEL 32), all Pad1 except
// one option header with symbolic type and length: the largest option lengths only fit here
func VerifC07_PacketInLongHopByHop() {
	const hbh = 264
	pay := make([]byte, 14+40+hbh)
	pay[12], pay[13] = 0x86, 0xdd
	ip := pay[14:]
	ip[0] = 0x60
	ip[4], ip[5] = uint8(hbh>>8), uint8(hbh&0xff) // payload length
	ip[6], ip[7] = 0, 64                          // next header: hop-by-hop
	h := ip[40:]
	h[0], h[1] = 59, 32 // no next header; HEL 32
	at := []int{2, 4, hbh - 4}[vr.Choice("at", 3)]
	h[at], h[at+1] = vr.U8("opttype"), vr.U8("optlen")
	prefix := make([]byte, 16+8+2+len(pay))
	prefix[2], prefix[3] = uint8(len(pay)>>8), uint8(len(pay)&0xff) // total_len
	prefix[16+1], prefix[16+3] = 1, 4                               // empty OXM match
	copy(prefix[16+8+2:], pay)
	c07run(c07frame(Type_PacketIn, prefix, 0))
}

// the largest frame the 16-bit length field can describe (65535 bytes), one per message type and
// per multipart request / reply type, filled with 0x00 or 0xa5 (concrete content: what varies is
// which decoder's record loop has to walk 64 KiB; its offsets and sums must not wrap)
func VerifC07_MaximalFrame() {
	const n = 65535
	data := make([]byte, n)
	fill := uint8(0xa5 * vr.Choice("fill", 2))
	for i := range data {
		data[i] = fill
	}
	k := vr.Choice("kind", 29+28)
	typ, mp := 0, -1
	switch {
	case k < 18:
		typ = k
	case k < 29:
		typ = k + 2 // 20..30
	case k < 29+14:
		typ, mp = 18, k-29
	default:
		typ, mp = 19, k-29-14
	}
	data[0], data[1], data[2], data[3] = 4, uint8(typ), 0xff, 0xff
	copy(data[4:8], vr.Bytes("xid", 4))
	if mp >= 0 {
		data[8], data[9], data[10], data[11] = 0, uint8(mp), 0, 0
	}
	c07run(data)
}

// bundle-add messages nested in one another (each wraps the next as its message; innermost: an
// echo request): decoding must stay proportional — a size function that walks the nest again at
// every level makes it exponential. Depth 1, 2, 8 or 30 (728 bytes); work budget 4000
// interpreted instructions per input byte (the unchanged tree needs under 200).
func VerifC07_NestedBundleAdd() {
	d := []int{1, 2, 8, 30}[vr.Choice("depth", 4)]
	n := 24*d + 8
	data := make([]byte, n)
	for i := 0; i < d; i++ {
		h := data[24*i:]
		l := n - 24*i
		h[0], h[1], h[2], h[3] = 4, Type_Experimenter, uint8(l>>8), uint8(l)
		copy(h[4:8], vr.Bytes("xid", 4))
		h[8], h[9], h[10], h[11] = uint8(ONF_EXPERIMENTER_ID>>24), uint8(ONF_EXPERIMENTER_ID>>16&0xff), uint8(ONF_EXPERIMENTER_ID>>8&0xff), uint8(ONF_EXPERIMENTER_ID&0xff)
		h[12], h[13], h[14], h[15] = uint8(Type_BundleAdd>>24), uint8(Type_BundleAdd>>16&0xff), uint8(Type_BundleAdd>>8&0xff), uint8(Type_BundleAdd&0xff)
		copy(h[16:20], vr.Bytes("bundle", 4))
		copy(h[22:24], vr.Bytes("bflags", 2))
	}
	e := data[24*d:]
	e[0], e[1], e[2], e[3] = 4, Type_EchoRequest, 0, 8
	vr.WorkLimit(4000 * n)
	c07run(data)
	vr.WorkLimit(0)
}

// instruction / action region inside flow-mod (40 fixed bytes, empty match, instructions)
func VerifC07_InstructionRegion() {
	r := vr.IntRange("region", 0, c07pick(16, 24))
	prefix := make([]byte, 40+8)
	prefix[40+1], prefix[40+3] = 1, 4
	c07run(c07frame(Type_FlowMod, prefix, r))
}

// action region inside an apply-actions instruction whose length covers the region
func VerifC07_ActionRegion() {
	r := vr.IntRange("region", 0, c07pick(12, 16))
	prefix := make([]byte, 40+8+8)
	prefix[40+1], prefix[40+3] = 1, 4
	prefix[48+1] = InstrType_APPLY_ACTIONS
	prefix[48+2], prefix[48+3] = uint8((8+r)>>8), uint8(8+r)
	c07run(c07frame(Type_FlowMod, prefix, r))
}

// Nicira action region: an experimenter action header (type 0xffff, vendor 0x2320) with every
// subtype, symbolic length field and body
func VerifC07_NxActionRegion() {
	sub := vr.IntRange("subtype", 0, 48)
	c07run(c07nx(sub, c07sizes(22, 0, 2, 5, 6, 8, 13, 14)))
}

// two Nicira actions of the same subtype in one apply-actions list, the first with a symbolic length
// field (0..40 and the top eight values), the second with one from a boundary list: what the first one leaves behind (a wrapped size, an oversized buffer) meets
// the list loop and a second element; allocations are counted over the whole parse
func VerifC07_NxActionPair() {
	sub := vr.IntRange("subtype", 0, 48)
	prefix := make([]byte, 40+8+8+32)
	prefix[40+1], prefix[40+3] = 1, 4
	prefix[48+1] = InstrType_APPLY_ACTIONS
	prefix[48+2], prefix[48+3] = 0, 8+32
	for i := 0; i < 2; i++ {
		a := prefix[56+16*i:]
		a[0], a[1] = 0xff, 0xff
		// length field: below the 10-byte Nicira header, the exact 16, just past it, past the list
		if i == 0 {
			l := vr.U16("alen0")
			vr.Assume(l <= 40 || l >= 0xfff8)
			a[2], a[3] = uint8(l>>8), uint8(l)
		} else {
			l := []int{16, 9, 0, 8, 10, 15, 17, 24, 32, 0xffff}[vr.Choice("alen1", c07pick(6, 10))]
			a[2], a[3] = uint8(l>>8), uint8(l)
		}
		a[4], a[5], a[6], a[7] = 0, 0, 0x23, 0x20
		a[8], a[9] = uint8(sub>>8), uint8(sub)
		// the bodies are concrete (zero): symbolic bodies are NxActionRegion's subject
	}
	c07run(c07frame(Type_FlowMod, prefix, 0))
}

// multipart reply bodies by type (fixed layouts; desc is 1056 bytes and is only ever truncated here)
func VerifC07_MultipartReplyRegion() {
	t := []uint16{MultipartType_Aggregate, MultipartType_Table, MultipartType_Port, MultipartType_Queue, MultipartType_Desc, MultipartType_Group, MultipartType_Experimenter}[vr.Choice("mptype", 7)]
	r := vr.IntRange("region", 0, c07pick(120, 220))
	prefix := make([]byte, 8)
	prefix[0], prefix[1] = uint8(t>>8), uint8(t)
	copy(prefix[2:4], vr.Bytes("mpflags", 2))
	c07run(c07frame(Type_MultiPartReply, prefix, r))
}

// flow-stats reply: symbolic 48-byte fixed part (record length included), then either a symbolic
// match region, or a well-formed empty match followed by a symbolic instruction region
func VerifC07_MultipartFlowReply() {
	prefix := make([]byte, 8+48)
	prefix[1] = MultipartType_Flow
	copy(prefix[8:], vr.Bytes("flowstats", 48))
	if vr.Bool("match-region") {
		c07run(c07frame(Type_MultiPartReply, prefix, c07sizes(16, 0, 3, 4, 8, 12)))
		return
	}
	prefix = append(prefix, 0, 1, 0, 4, 0, 0, 0, 0)
	c07run(c07frame(Type_MultiPartReply, prefix, c07sizes(16, 0, 3, 4, 8, 12)))
}

func VerifC07_MultipartRequestRegion() {
	t := []uint16{MultipartType_Flow, MultipartType_Aggregate, MultipartType_Table, MultipartType_Port, MultipartType_Queue, MultipartType_Desc, MultipartType_Experimenter}[vr.Choice("mptype", 7)]
	r := vr.IntRange("region", 0, c07pick(44, 56))
	prefix := make([]byte, 8)
	prefix[0], prefix[1] = uint8(t>>8), uint8(t)
	c07run(c07frame(Type_MultiPartRequest, prefix, r))
}

// vendor messages by experimenter type, incl. bundle-add wrapping a second frame
func VerifC07_VendorRegion() {
	et := []uint32{Type_SetControllerId, Type_TlvTableMod, Type_TlvTableReply, Type_BundleCtrl, Type_BundleAdd, Type_TlvTableRequest, 0xdeadbeef}[vr.Choice("exptype", 7)]
	r := vr.IntRange("region", 0, c07pick(34, 48)) // bundle-add: 8 fixed + an 8-byte embedded frame + a 12-byte property, and some more
	prefix := make([]byte, 8)
	copy(prefix[0:4], vr.Bytes("vendor", 4))
	prefix[4], prefix[5], prefix[6], prefix[7] = uint8(et>>24), uint8(et>>16), uint8(et>>8), uint8(et)
	c07run(c07frame(Type_Experimenter, prefix, r))
}

// hello elements
func VerifC07_HelloRegion() {
	r := vr.IntRange("region", 0, c07pick(20, 32))
	c07run(c07frame(Type_Hello, nil, r))
}

// error / experimenter error, features reply with ports, port status, config, echo, barrier
func VerifC07_OtherRegions() {
	typ := []uint8{Type_Error, Type_FeaturesReply, Type_PortStatus, Type_GetConfigReply, Type_SetConfig, Type_EchoRequest, Type_BarrierReply}[vr.Choice("type", 7)]
	r := vr.IntRange("region", 0, c07pick(72, 96))
	c07run(c07frame(typ, nil, r))
}

// one match field in each OXM class — concrete class, symbolic field number / mask bit / length
// byte / payload: every payload decoder's short-read paths (largest: masked IPv6, 4+32 bytes)
var c07classes = []uint16{OXM_CLASS_OPENFLOW_BASIC, OXM_CLASS_NXM_1, OXM_CLASS_NXM_0, OXM_CLASS_EXPERIMENTER, 0x1234}

func VerifC07_MatchFieldByClass() {
	class := c07classes[vr.Choice("class", len(c07classes))]
	r := c07sizes(36, 0, 1, 2, 4, 6, 8, 12, 16, 32)
	prefix := make([]byte, 40+8)
	copy(prefix[40:42], []byte{0, 1})
	prefix[42], prefix[43] = 0, 5 // the match ends inside the first field: exactly one field is decoded, whatever its size
	prefix[44], prefix[45] = uint8(class>>8), uint8(class)
	copy(prefix[46:48], vr.Bytes("fieldlen", 2))
	c07run(c07frame(Type_FlowRemoved, prefix, r))
}

// one action of each standard type — type in 0..255 symbolic (high byte 0), symbolic length and body
func VerifC07_ActionByType() {
	r := c07sizes(20, 0, 1, 3, 4, 5, 8, 12)
	prefix := make([]byte, 40+8+8+4)
	prefix[40+1], prefix[40+3] = 1, 4
	prefix[48+1] = InstrType_APPLY_ACTIONS
	prefix[50], prefix[51] = 0, 9 // the instruction ends inside the first action: exactly one action is decoded
	prefix[57] = vr.U8("atype")
	copy(prefix[58:60], vr.Bytes("alen", 2))
	c07run(c07frame(Type_FlowMod, prefix, r))
}

// one instruction of each type
func VerifC07_InstructionByType() {
	t := vr.IntRange("itype", 0, 7)
	r := vr.IntRange("region", 0, c07pick(12, 20))
	prefix := make([]byte, 40+8+4)
	prefix[40+1], prefix[40+3] = 1, 4
	prefix[48], prefix[49] = uint8(t>>8), uint8(t)
	copy(prefix[50:52], vr.Bytes("ilen", 2))
	c07run(c07frame(Type_FlowMod, prefix, r))
}

// c07nx: an apply-actions instruction holding one Nicira action header of the given subtype
// followed by a symbolic region
func c07nx(sub int, r int) []byte {
	prefix := make([]byte, 40+8+8+10)
	prefix[40+1], prefix[40+3] = 1, 4
	prefix[48+1] = InstrType_APPLY_ACTIONS
	prefix[48+2], prefix[48+3] = 0, 9 // exactly one action is decoded
	prefix[56], prefix[57] = 0xff, 0xff
	copy(prefix[58:60], vr.Bytes("alen", 2))
	prefix[60], prefix[61], prefix[62], prefix[63] = 0, 0, 0x23, 0x20
	prefix[64], prefix[65] = uint8(sub>>8), uint8(sub)
	return c07frame(Type_FlowMod, prefix, r)
}

// conntrack: 14 fixed bytes then nested actions
func VerifC07_NxConnTrackRegion() {
	c07run(c07nx(NXAST_CT, vr.IntRange("region", 14, c07pick(14+12, 14+20))))
}

// learn: 22 fixed bytes then flow-mod specs
func VerifC07_NxLearnRegion() {
	c07run(c07nx(NXAST_LEARN, vr.IntRange("region", 22, c07pick(22+12, 22+20))))
}

// ---- valid frames, truncated at every offset / corrupted ----
// The frames are the library's own encodings of fixed, rich shapes (symbolic field values,
// concrete structure): every action kind in one flow-mod, every match-field kind (masked and
// unmasked) in one flow-removed, and one frame per switch-originated message kind. Type and length
// bytes are concrete except where the corruption hits them, so paths do not multiply.

// c07action: one action of kind k in a fixed, rich shape (conntrack with nested nat + output,
// learn with three spec kinds, note with text, set-field / reg_load2 with a fixed field)
func c07action(k int) Action {
	maskMode = 2
	switch k {
	case 8:
		return NewActionSetField(*buildField(4))
	case 22:
		return NewNXActionDecTTLCntIDs(2, vr.U16("id"), vr.U16("id"))
	case 25:
		return NewNXActionRegLoad2(buildField(37))
	}
	a := buildAction(k, 0)
	switch x := a.(type) {
	case *NXActionConnTrack:
		nat := NewNXActionCTNAT()
		nat.SetSNAT()
		nat.SetRangeIPv4Min(symIP4("ip4min"))
		nat.SetRangeIPv6Max(symIP16("ip6max"))
		p := vr.U16("pmin")
		nat.SetRangeProtoMin(&p)
		x.AddAction(nat)
		x.AddAction(NewActionOutput(vr.U32("port")))
	case *NXActionLearn:
		x.LearnSpecs = append(x.LearnSpecs,
			&NXLearnSpec{Header: NewLearnHeaderMatchFromValue(24), SrcValue: vr.Bytes("imm", 4), DstField: &NXLearnSpecField{regHeader(false), 0}},
			&NXLearnSpec{Header: NewLearnHeaderLoadFromField(16), SrcField: &NXLearnSpecField{regHeader(false), 0}, DstField: &NXLearnSpecField{regHeader(false), 16}},
			&NXLearnSpec{Header: NewLearnHeaderOutputFromField(16), SrcField: &NXLearnSpecField{regHeader(false), 0}})
	case *NXActionNote:
		x.Note = vr.Bytes("note", 5)
	}
	return a
}

func c07flowModWith(acts ...Action) []byte {
	ia := NewInstrApplyActions()
	for _, a := range acts {
		ia.AddAction(a, false)
	}
	f := NewFlowMod()
	f.AddInstruction(NewInstrGotoTable(vr.U8("table")))
	f.AddInstruction(NewInstrWriteMetadata(vr.U64("md"), vr.U64("mdmask")))
	f.AddInstruction(ia)
	b, _ := f.MarshalBinary()
	return b
}

func c07allActions() []byte {
	var acts []Action
	for k := 0; k < nActionKinds; k++ {
		acts = append(acts, c07action(k))
	}
	return c07flowModWith(acts...)
}

func c07flowRemovedWith(first, last int, masked bool) []byte {
	maskMode = 2
	if masked {
		maskMode = 1
	}
	f := NewFlowRemoved()
	f.Header.Type = Type_FlowRemoved
	for k := first; k <= last; k++ {
		if k == 42 || k == 43 {
			continue // NXM_0 class: encodable only (known finding C05)
		}
		f.Match.AddField(*buildField(k))
	}
	f.Header.Length = f.Len()
	b, _ := f.MarshalBinary()
	return b
}

func c07allFields(masked bool) []byte { return c07flowRemovedWith(0, nFieldKinds-1, masked) }

// one fixed shape per switch-originated kind: the first shape each builder yields
func c07message(k int) []byte {
	maskMode = 1
	m := buildSwitchMessageFixed(k)
	b, err := m.MarshalBinary()
	if err != nil {
		vr.Assume(false)
	}
	return b
}

func c07shape() []byte {
	k := vr.Choice("shape", nSwKinds+3)
	switch k {
	case nSwKinds:
		vr.Note("shape", "all-actions")
		return c07allActions()
	case nSwKinds + 1:
		vr.Note("shape", "all-fields")
		return c07allFields(false)
	case nSwKinds + 2:
		vr.Note("shape", "all-fields-masked")
		return c07allFields(true)
	}
	vr.Note("shape", swKindNames[k])
	return c07message(k)
}

func VerifC07_TruncatedValid() {
	b := c07shape()
	t := vr.IntRange("cut", 0, len(b))
	data := make([]byte, t)
	copy(data, b[:t])
	if t >= 4 && vr.Bool("fix-header-length") {
		data[2], data[3] = uint8(t>>8), uint8(t)
	}
	c07run(data)
}

// The rest of the frame is built with concrete field values (vr.ConcreteInputs), so only the
// corrupted bytes are symbolic and a misaligned re-parse does not fork on payload bytes; symbolic
// payloads are the subject of the region families above.
// one byte (quick) / this byte and the next (thorough) replaced by any value,
// from offset `from`
func c07corrupt(b []byte, from int) {
	vr.ConcreteInputs(false)
	data := make([]byte, len(b))
	copy(data, b)
	o := vr.IntRange("at", from, len(b)-1)
	if vr.Thorough() {
		// any value in this byte and the next
		data[o] = vr.U8("c0")
		if o+1 < len(b) {
			data[o+1] = vr.U8("c1")
		}
	} else {
		// any value in this byte
		data[o] = vr.U8("c0")
	}
	c07run(data)
}

func VerifC07_CorruptedMessage() {
	k := vr.Choice("shape", nSwKinds)
	vr.Note("shape", swKindNames[k])
	vr.ConcreteInputs(true) // field values are fixed constants here: only the corrupted bytes are symbolic
	c07corrupt(c07message(k), 0)
}

// a flow-mod holding one action of each kind in turn; corruption anywhere from the instruction on
func VerifC07_CorruptedAction() {
	k := vr.Choice("akind", nActionKinds)
	vr.Note("akind", actionKindNames[k])
	vr.ConcreteInputs(true)
	ia := NewInstrApplyActions()
	ia.AddAction(c07action(k), false)
	f := NewFlowMod()
	f.AddInstruction(ia)
	b, _ := f.MarshalBinary()
	c07corrupt(b, 56)
}

// a flow-removed holding one match field of each kind in turn (masked and unmasked)
func VerifC07_CorruptedField() {
	k := vr.Choice("fkind", nFieldKinds-2)
	vr.Note("fkind", fieldKindNames[k])
	masked := vr.Choice("masked", 2) == 1
	vr.ConcreteInputs(true)
	c07corrupt(c07flowRemovedWith(k, k, masked), 48)
}
