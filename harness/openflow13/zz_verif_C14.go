//go:build verif

package openflow13

// C14 (no cross-talk, no races on library state): an API sweep with the shared-state monitor
// armed — every write to, and every escape of, memory reachable from the library's package-level
// variables after init is a finding (sync/atomic on the id counter is the only sanctioned
// writer). With no shared mutable state, values processed on different goroutines cannot
// influence each other and the sequential results of C01–C13 carry over.
// The sweep: encode every controller message kind, parse every valid frame shape, look up every
// registered name in three spellings (masked and unmasked) and modify the result, the generic
// and the typed match-field builders, the range helpers.

import (
	"strings"

	vr "github.com/contiv/libOpenflow/verifrt"
)

func VerifC14_SweepEncode() {
	k := vr.Choice("kind", nMsgKinds)
	m := buildMessage(k)
	_ = m.Len()
	_, _ = m.MarshalBinary()
}

func VerifC14_SweepParse() {
	b := c07shape()
	in := make([]byte, len(b))
	copy(in, b)
	m, err := Parse(in)
	if err == nil && m != nil {
		_, _ = m.MarshalBinary()
	}
}

func VerifC14_SweepRegistry() {
	r := refOxxTable[vr.Choice("name", len(refOxxTable))]
	for sp := 0; sp < 3; sp++ {
		name := r.name
		switch sp {
		case 1:
			name = strings.ToLower(name)
		case 2:
			name = mixedCase(name)
		}
		for _, masked := range []bool{false, true} {
			f, err := FindFieldHeaderByName(name, masked)
			if err != nil {
				continue
			}
			// use the result the way the typed constructors do
			f.Value = newUint32Message(vr.U32("v"))
			f.Length = vr.U8("l")
			f.Class, f.Field = vr.U16("c"), vr.U8("f")
			again, _ := FindFieldHeaderByName(r.name, masked)
			vr.Assert(again != f && again.Value == nil, "later-lookup-independent")
			vr.Assert(again.Class == r.class && again.Field == r.field, "registry-entry-unchanged")
		}
	}
}

func VerifC14_SweepBuilders() {
	switch vr.Choice("builder", 6) {
	case 0:
		k := vr.Choice("fkind", nFieldKinds)
		f := buildField(k)
		_, _ = f.MarshalBinary()
	case 1:
		k := vr.Choice("akind", nActionKinds)
		a := buildAction(k, 1)
		_, _ = a.MarshalBinary()
	case 2:
		f, err := NewMatchField("nxm_nx_reg4", vr.U32("data"), 4, 8)
		if err == nil {
			_, _ = f.MarshalBinary()
		}
	case 3:
		_ = NewNXRange(3, 17).ToUint32Mask()
		_ = NewNXRangeByOfsNBits(3, 9).ToOfsBits()
	case 4:
		s := NewCTStates()
		s.SetNew()
		s.UnsetRpl()
		_, _ = NewCTStateMatchField(s).MarshalBinary()
	default:
		h := NewOfp13Header()
		_, _ = h.MarshalBinary()
	}
}

// transaction ids drawn through the process-wide generator every constructor uses
func VerifC14_XidPackageGenerator() {
	vr.Threads(2, func() uint32 { return NewOfp13Header().Xid }, "xids-pairwise-distinct")
}

// two values under construction at the same time: what is added to one does not show in the
// other (constructors hand out independent memory, not slices of a shared template)
func VerifC14_IndependentValuesOverlap() {
	x, y := vr.U32("x"), vr.U32("y")
	switch vr.Choice("kind", 3) {
	case 0:
		vr.Tag("kind", "match")
		a := NewMatch()
		a.AddField(*NewInPortField(x))
		b := NewMatch()
		b.AddField(*NewInPortField(y))
		ab, _ := a.MarshalBinary()
		bb, _ := b.MarshalBinary()
		vr.Assert(len(ab) == 16 && walkU32(ab, 8) == x, "first-value-unchanged-by-the-second")
		vr.Assert(len(bb) == 16 && walkU32(bb, 8) == y, "second-value-as-built")
	case 1:
		vr.Tag("kind", "flow-mod")
		a := NewFlowMod()
		a.Match.AddField(*NewInPortField(x))
		b := NewFlowMod()
		b.Match.AddField(*NewInPortField(y))
		ab, _ := a.MarshalBinary()
		bb, _ := b.MarshalBinary()
		vr.Assert(len(ab) == 64 && walkU32(ab, 56) == x, "first-value-unchanged-by-the-second")
		vr.Assert(len(bb) == 64 && walkU32(bb, 56) == y, "second-value-as-built")
	default:
		vr.Tag("kind", "apply-actions")
		a := NewInstrApplyActions()
		a.AddAction(NewActionOutput(x), false)
		b := NewInstrApplyActions()
		b.AddAction(NewActionOutput(y), false)
		ab, _ := a.MarshalBinary()
		bb, _ := b.MarshalBinary()
		vr.Assert(len(ab) == 24 && walkU32(ab, 12) == x, "first-value-unchanged-by-the-second")
		vr.Assert(len(bb) == 24 && walkU32(bb, 12) == y, "second-value-as-built")
	}
}
