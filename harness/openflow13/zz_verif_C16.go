//go:build verif

package openflow13

import (
	vr "github.com/contiv/libOpenflow/verifrt"
)

// C16 — bit-range helpers. All loop-free integer code: each assertion is one solver query over the
// whole stated domain (0 <= first <= last <= 31; ofs < 1024, 1 <= n <= 64).

func refMask32(first, last int) uint32 {
	// computed in 64 bits, independent of the implementation's shift-right-then-left trick
	n := uint64(last - first + 1)
	return uint32(((uint64(1) << n) - 1) << uint64(first))
}

func VerifC16_RangeMask() {
	first := vr.Int("first")
	last := vr.Int("last")
	vr.Assume(vr.And(0 <= first, vr.And(first <= last, last <= 31)))
	r := NewNXRange(first, last)
	vr.Assert(r.ToUint32Mask() == refMask32(first, last), "mask==bits[first..last]")
	vr.Observe("mask", r.ToUint32Mask())
}

func VerifC16_RangeOfsBits() {
	first := vr.Int("first")
	last := vr.Int("last")
	vr.Assume(vr.And(0 <= first, vr.And(first <= last, last <= 31)))
	r := NewNXRange(first, last)
	w := r.ToOfsBits()
	vr.Assert(w == uint16(first)<<6|uint16(last-first), "ofsbits==first<<6|(width-1)")
	vr.Assert(int(w>>6) == first, "ofs-recovered")
	vr.Assert(int(w&0x3f)+1 == last-first+1, "width-recovered")
	vr.Assert(int(r.GetOfs()) == first, "GetOfs")
	vr.Assert(int(r.GetNbits()) == last-first+1, "GetNbits")
	vr.Observe("w", w)
}

func VerifC16_RangeByOfsNBits() {
	ofs := vr.Int("ofs")
	n := vr.Int("n")
	vr.Assume(vr.And(vr.And(0 <= ofs, ofs <= 31), vr.And(vr.And(1 <= n, n <= 32), ofs+n <= 32)))
	a := NewNXRangeByOfsNBits(ofs, n)
	b := NewNXRange(ofs, ofs+n-1)
	vr.Assert(a.ToUint32Mask() == b.ToUint32Mask(), "same-mask")
	vr.Assert(a.ToOfsBits() == b.ToOfsBits(), "same-ofsbits")
	vr.Assert(a.GetOfs() == b.GetOfs(), "same-ofs")
	vr.Assert(a.GetNbits() == b.GetNbits(), "same-nbits")
	vr.Assert(a.ToUint32Mask() == refMask32(ofs, ofs+n-1), "mask==bits")
}

func VerifC16_EncodeOfsNbits() {
	ofs := vr.U16("ofs")
	n := vr.U16("n")
	vr.Assume(vr.And(ofs < 1024, vr.And(1 <= n, n <= 64)))
	w := encodeOfsNbits(ofs, n)
	vr.Assert(w>>6 == ofs, "offset-in-upper-10-bits")
	vr.Assert(w&0x3f == n-1, "width-minus-one-in-lower-6-bits")
	vr.Assert(decodeOfs(w) == ofs, "decodeOfs")
	vr.Assert(decodeNbits(w) == n, "decodeNbits")
	vr.Observe("w", w)
}

func VerifC16_EncodeStartEnd() {
	s := vr.U16("start")
	e := vr.U16("end")
	vr.Assume(vr.And(s < 1024, vr.And(s <= e, e-s <= 63)))
	vr.Assert(encodeOfsNbitsStartEnd(s, e) == encodeOfsNbits(s, e-s+1), "startend==ofsnbits")
}

func VerifC16_RegMatchMask() {
	first := vr.Int("first")
	last := vr.Int("last")
	idx := vr.IntRange("idx", 0, 15)
	data := vr.U32("data")
	vr.Assume(vr.And(0 <= first, vr.And(first <= last, last <= 31)))
	f := NewRegMatchField(idx, data, NewNXRange(first, last))
	b, err := f.MarshalBinary()
	vr.Assert(err == nil, "marshal-ok")
	vr.Assert(len(b) == 12, "len==12")
	m := refMask32(first, last)
	vr.Assert(b[8] == byte(m>>24), "mask-byte0")
	vr.Assert(b[9] == byte(m>>16), "mask-byte1")
	vr.Assert(b[10] == byte(m>>8), "mask-byte2")
	vr.Assert(b[11] == byte(m), "mask-byte3")
	vr.Assert(b[4] == byte(data>>24), "value-byte0")
	vr.Assert(b[7] == byte(data), "value-byte3")
	vr.Observe("bytes", b)
}
