//go:build verif

package openflow13

// Builders shared by the encoder-side harnesses (C01 C02 C03 C05 C06 C12 C13): every value is
// built through the library's constructors and adder methods, with symbolic arguments. The kind
// of each element is picked with vr.Choice (a fork without solver involvement); the names of the
// kinds go into the finding key through vr.Tag.

import (
	"net"

	"github.com/contiv/libOpenflow/common"
	"github.com/contiv/libOpenflow/util"
	vr "github.com/contiv/libOpenflow/verifrt"
)

// ---- match fields ----

var fieldKindNames = []string{
	"InPort", "EthDst", "EthSrc", "EthType", "VlanId", "MplsLabel", "MplsBos", "Ipv4Src", "Ipv4Dst",
	"Ipv6Src", "Ipv6Dst", "IPv6FlowLabel", "IpProto", "IpDscp", "TunnelId", "Metadata", "TcpSrc",
	"TcpDst", "UdpSrc", "UdpDst", "TcpFlags", "ArpOper", "TunnelIpv4Src", "TunnelIpv4Dst", "SctpDst",
	"SctpSrc", "ArpTha", "ArpSha", "ArpTpa", "ArpSpa", "ActsetOutput", "IcmpCode", "IcmpType",
	"Reg", "TunMetadata", "CTState", "CTZone", "CTMark", "CTLabel", "ConjID", "NxARPSha",
	"NxARPTha", "NxARPSpa", "NxARPTpa",
}

const nFieldKinds = 44

func symMAC(name string) net.HardwareAddr { return net.HardwareAddr(vr.Bytes(name, 6)) }
func symIP4(name string) net.IP           { return net.IP(vr.Bytes(name, 4)) }
func symIP16(name string) net.IP          { return net.IP(vr.Bytes(name, 16)) }

// buildField builds match field number kind with symbolic arguments; masked variants where the
// constructor offers one are chosen by a symbolic boolean.
// maskMode: 0 = masked variant chosen by a symbolic boolean (a fork), 1 = always masked, 2 = never
var maskMode = 0

// The arguments handed to the last buildField call, as big-endian bytes, for the reference
// (specification) writers of C02/C03/C04: value, mask (nil if none), whether the masked
// constructor form was used, the kind, and for registers the index and bit range.
var (
	argV, argM []byte
	argMasked  bool
	argKind    int
	argRegIdx  int
	argRng     []int
)

// which kinds have a masked constructor form
var fieldMaskable = []bool{
	false, true, true, false, true, false, false, true, true, true, true, true, false, false, false, true, false,
	false, false, false, true, false, true, true, false, false, false, false, false, false, false, false, false,
	true, true, true, false, true, true, false, true, true, true, true,
}

func beBytes(v uint64, n int) []byte {
	b := make([]byte, n)
	for i := 0; i < n; i++ {
		b[n-1-i] = byte(v >> (8 * uint(i)))
	}
	return b
}
func av8() uint8   { v := vr.U8("v"); argV = beBytes(uint64(v), 1); return v }
func av16() uint16 { v := vr.U16("v"); argV = beBytes(uint64(v), 2); return v }
func av32() uint32 { v := vr.U32("v"); argV = beBytes(uint64(v), 4); return v }
func av64() uint64 { v := vr.U64("v"); argV = beBytes(v, 8); return v }
func am16() uint16 { v := vr.U16("m"); argM = beBytes(uint64(v), 2); return v }
func am32() uint32 { v := vr.U32("m"); argM = beBytes(uint64(v), 4); return v }
func am64() uint64 { v := vr.U64("m"); argM = beBytes(v, 8); return v }
func avBytes(n int) []byte {
	argV = vr.Bytes("v", n)
	return append(make([]byte, 0, n), argV...)
}
func amBytes(n int) []byte {
	argM = vr.Bytes("m", n)
	return append(make([]byte, 0, n), argM...)
}

// ip4form: an IPv4 address as the 4-byte slice or (per-kind harnesses only) as the 16-byte
// IPv4-in-IPv6 form net.ParseIP / net.IPv4 return; both mean the same 4 bytes on the wire
func ip4form(b []byte) net.IP {
	if !shortMode && vr.Bool("ip-in-16-byte-form") {
		return net.IPv4(b[0], b[1], b[2], b[3])
	}
	return net.IP(b)
}

func buildField(kind int) *MatchField {
	vr.Note("field", fieldKindNames[kind])
	masked := maskMode == 1
	if maskMode == 0 {
		masked = vr.Bool("masked")
	}
	argV, argM, argMasked, argKind, argRegIdx, argRng = nil, nil, masked && fieldMaskable[kind], kind, 3, nil
	switch kind {
	case 0:
		return NewInPortField(av32())
	case 1:
		if masked {
			m := net.HardwareAddr(amBytes(6))
			return NewEthDstField(net.HardwareAddr(avBytes(6)), &m)
		}
		return NewEthDstField(net.HardwareAddr(avBytes(6)), nil)
	case 2:
		if masked {
			m := net.HardwareAddr(amBytes(6))
			return NewEthSrcField(net.HardwareAddr(avBytes(6)), &m)
		}
		return NewEthSrcField(net.HardwareAddr(avBytes(6)), nil)
	case 3:
		return NewEthTypeField(av16())
	case 4:
		if masked {
			m := am16()
			return NewVlanIdField(av16(), &m)
		}
		return NewVlanIdField(av16(), nil)
	case 5:
		return NewMplsLabelField(av32())
	case 6:
		return NewMplsBosField(av8())
	case 7:
		if masked {
			m := net.IP(amBytes(4))
			return NewIpv4SrcField(net.IP(avBytes(4)), &m)
		}
		return NewIpv4SrcField(net.IP(avBytes(4)), nil)
	case 8:
		if masked {
			m := ip4form(amBytes(4))
			return NewIpv4DstField(ip4form(avBytes(4)), &m)
		}
		return NewIpv4DstField(ip4form(avBytes(4)), nil)
	case 9:
		if masked {
			m := net.IP(amBytes(16))
			return NewIpv6SrcField(net.IP(avBytes(16)), &m)
		}
		return NewIpv6SrcField(net.IP(avBytes(16)), nil)
	case 10:
		if masked {
			m := net.IP(amBytes(16))
			return NewIpv6DstField(net.IP(avBytes(16)), &m)
		}
		return NewIpv6DstField(net.IP(avBytes(16)), nil)
	case 11:
		if masked {
			m := am32()
			return NewIPV6FlowLabelField(av32(), &m)
		}
		return NewIPV6FlowLabelField(av32(), nil)
	case 12:
		return NewIpProtoField(av8())
	case 13:
		return NewIpDscpField(av8())
	case 14:
		return NewTunnelIdField(av64())
	case 15:
		if masked {
			m := am64()
			return NewMetadataField(av64(), &m)
		}
		return NewMetadataField(av64(), nil)
	case 16:
		return NewTcpSrcField(av16())
	case 17:
		return NewTcpDstField(av16())
	case 18:
		return NewUdpSrcField(av16())
	case 19:
		return NewUdpDstField(av16())
	case 20:
		if masked {
			m := am16()
			return NewTcpFlagsField(av16(), &m)
		}
		return NewTcpFlagsField(av16(), nil)
	case 21:
		return NewArpOperField(av16())
	case 22:
		if masked {
			m := net.IP(amBytes(4))
			return NewTunnelIpv4SrcField(net.IP(avBytes(4)), &m)
		}
		return NewTunnelIpv4SrcField(net.IP(avBytes(4)), nil)
	case 23:
		if masked {
			m := net.IP(amBytes(4))
			return NewTunnelIpv4DstField(net.IP(avBytes(4)), &m)
		}
		return NewTunnelIpv4DstField(net.IP(avBytes(4)), nil)
	case 24:
		return NewSctpDstField(av16())
	case 25:
		return NewSctpSrcField(av16())
	case 26:
		return NewArpThaField(avBytes(6))
	case 27:
		return NewArpShaField(avBytes(6))
	case 28:
		return NewArpTpaField(net.IP(avBytes(4)))
	case 29:
		return NewArpSpaField(net.IP(avBytes(4)))
	case 30:
		return NewActsetOutputField(av32())
	case 31:
		return NewIcmpCodeField(av8())
	case 32:
		return NewIcmpTypeField(av8())
	case 33:
		idx := 3
		if vr.Thorough() && !shortMode {
			idx = vr.IntRange("reg", 0, 15)
		} else if vr.Thorough() {
			idx = []int{0, 3, 15}[vr.Choice("reg", 3)]
		}
		argRegIdx = idx
		if masked && maskMode == 1 {
			argRng = []int{4, 19}
			return NewRegMatchField(idx, av32(), NewNXRange(4, 19))
		}
		if masked && shortMode {
			// inside a container: a few ranges (whole register, inner, top bit, bottom bit); the
			// per-kind harnesses cover all 528
			r := [][2]int{{0, 31}, {4, 19}, {31, 31}, {0, 0}}[vr.Choice("range", 4)]
			argRng = []int{r[0], r[1]}
			return NewRegMatchField(idx, av32(), NewNXRange(r[0], r[1]))
		}
		if masked {
			first := vr.IntRange("first", 0, 31)
			last := vr.IntRange("last", first, 31)
			argRng = []int{first, last}
			return NewRegMatchField(idx, av32(), NewNXRange(first, last))
		}
		return NewRegMatchField(idx, av32(), nil)
	case 34:
		n := 4
		if maskMode == 0 {
			n = vr.IntRange("tmlen", 1, 5)
		}
		if masked {
			return NewTunMetadataField(2, avBytes(n), amBytes(n))
		}
		return NewTunMetadataField(2, avBytes(n), nil)
	case 35:
		s := NewCTStates()
		s.data, s.mask = av32(), am32()
		return NewCTStateMatchField(s)
	case 36:
		return NewCTZoneMatchField(av16())
	case 37:
		if masked {
			m := am32()
			return NewCTMarkMatchField(av32(), &m)
		}
		return NewCTMarkMatchField(av32(), nil)
	case 38:
		var l, m [16]byte
		copy(l[:], avBytes(16))
		if masked {
			copy(m[:], amBytes(16))
			return NewCTLabelMatchField(l, &m)
		}
		return NewCTLabelMatchField(l, nil)
	case 39:
		return NewConjIDMatchField(av32())
	case 40:
		if masked {
			return NewNxARPShaMatchField(avBytes(6), amBytes(6))
		}
		return NewNxARPShaMatchField(avBytes(6), nil)
	case 41:
		if masked {
			return NewNxARPThaMatchField(avBytes(6), amBytes(6))
		}
		return NewNxARPThaMatchField(avBytes(6), nil)
	case 42:
		if masked {
			return NewNxARPSpaMatchField(net.IP(avBytes(4)), net.IP(amBytes(4)))
		}
		return NewNxARPSpaMatchField(net.IP(avBytes(4)), nil)
	case 43:
		if masked {
			return NewNxARPTpaMatchField(net.IP(avBytes(4)), net.IP(amBytes(4)))
		}
		return NewNxARPTpaMatchField(net.IP(avBytes(4)), nil)
	}
	panic("buildField: bad kind")
}

// a few representative field kinds for use inside larger structures (keeps list harnesses small):
// 1-byte, 2-byte masked-capable, 4-byte, 6-byte masked-capable, 16-byte, register with range.
var fieldShort = []int{12, 1, 4, 0, 9, 33, 11, 34}

// buildFieldShort picks among representative kinds; w bounds the number of alternatives
// (w=0: 2 kinds, w>=1: 4 kinds quick / 8 thorough). Containers pass w-1 to their children: the
// per-kind harnesses cover every kind on its own, the container harnesses cover every
// (container, representative child) pair, and the generic-child harnesses cover arbitrary children.
func buildFieldShort(w int) *MatchField {
	n := 2
	if w >= 1 {
		n = 4
		if vr.Thorough() {
			n = len(fieldShort)
		}
	}
	shortMode = true
	f := buildField(fieldShort[vr.Choice("fkind", n)])
	shortMode = false
	return f
}

// shortMode: buildField is called for a child of a container (see case 33)
var shortMode = false

func buildMatch(maxFields int, w int) *Match {
	m := NewMatch()
	k := vr.IntRange("nfields", 0, maxFields)
	for i := 0; i < k; i++ {
		m.AddField(*buildFieldShort(w))
	}
	return m
}

// ---- actions ----

var actionKindNames = []string{
	"Output", "SetQueue", "Group", "DecNwTtl", "PushVlan", "PushMpls", "PopVlan", "PopMpls", "SetField",
	"Conjunction", "ConnTrack", "RegLoad", "RegMove", "Resubmit", "ResubmitTable", "ResubmitTableCT",
	"ResubmitTableCTNoInPort", "CTNAT", "OutputReg", "OutputRegMaxLen", "CTClear", "DecTTL",
	"DecTTLCntIDs", "Learn", "Note", "RegLoad2", "Controller",
}

const nActionKinds = 27

func regHeader(masked bool) *MatchField {
	f, _ := FindFieldHeaderByName("NXM_NX_REG1", masked)
	return f
}

func buildLearnSpec() *NXLearnSpec {
	kind := vr.Choice("spec", 5)
	nbits := vr.U16("nbits")
	vr.Assume(nbits <= 1023)
	vr.Assume(nbits >= 1) // a zero-bit match-from-field spec has header 0x0000, which is the end-of-specs padding
	src := &NXLearnSpecField{regHeader(false), vr.U16("srcofs")}
	dst := &NXLearnSpecField{regHeader(false), vr.U16("dstofs")}
	switch kind {
	case 0:
		vr.Note("spec", "MatchFromValue")
		return &NXLearnSpec{Header: NewLearnHeaderMatchFromValue(nbits), SrcValue: vr.Bytes("imm", 128), DstField: dst}
	case 1:
		vr.Note("spec", "MatchFromField")
		return &NXLearnSpec{Header: NewLearnHeaderMatchFromField(nbits), SrcField: src, DstField: dst}
	case 2:
		vr.Note("spec", "LoadFromField")
		return &NXLearnSpec{Header: NewLearnHeaderLoadFromField(nbits), SrcField: src, DstField: dst}
	case 3:
		vr.Note("spec", "LoadFromValue")
		return &NXLearnSpec{Header: NewLearnHeaderLoadFromValue(nbits), SrcValue: vr.Bytes("imm", 128), DstField: dst}
	}
	vr.Note("spec", "OutputFromField")
	return &NXLearnSpec{Header: NewLearnHeaderOutputFromField(nbits), SrcField: src}
}

// buildAction builds action number kind. w is the variant width: 2 = every variant of this kind
// (all 64 NAT range subsets, note lengths 0..9, up to 2 learn specs / nested conntrack actions),
// 1 = a few presets, 0 = one preset. Nested elements are built with w-1.
func buildAction(kind int, w int) Action {
	vr.Note("action", actionKindNames[kind])
	switch kind {
	case 0:
		return NewActionOutput(vr.U32("port"))
	case 1:
		return NewActionSetQueue(vr.U32("queue"))
	case 2:
		return NewActionGroup(vr.U32("group"))
	case 3:
		return NewActionDecNwTtl()
	case 4:
		return NewActionPushVlan(vr.U16("ethertype"))
	case 5:
		return NewActionPushMpls(vr.U16("ethertype"))
	case 6:
		return NewActionPopVlan()
	case 7:
		return NewActionPopMpls(vr.U16("ethertype"))
	case 8:
		return NewActionSetField(*buildFieldShort(w - 1))
	case 9:
		return NewNXActionConjunction(vr.U8("clause"), vr.U8("nclause"), vr.U32("id"))
	case 10:
		ct := NewNXActionConnTrack()
		ct.Commit()
		ct.Flags |= vr.U16("ctflags") // Commit()/Force() only OR bits into Flags
		ct.Table(vr.U8("table"))
		ct.Alg = vr.U16("alg")
		if w >= 2 && vr.Bool("zonerange") {
			ct.ZoneRange(regHeader(false), NewNXRange(0, 15))
		} else {
			ct.ZoneImm(vr.U16("zone"))
		}
		if w >= 1 {
			k := vr.IntRange("nct", 0, w)
			for i := 0; i < k; i++ {
				ct.AddAction(buildAction(ctNested[vr.Choice("ctkind", len(ctNested))], w-1))
			}
		}
		return ct
	case 11:
		return NewNXActionRegLoad(vr.U16("ofsnbits"), regHeader(false), vr.U64("value"))
	case 12:
		return NewNXActionRegMove(vr.U16("nbits"), vr.U16("srcofs"), vr.U16("dstofs"), regHeader(false), regHeader(false))
	case 13:
		return NewNXActionResubmit(vr.U16("inport"))
	case 14:
		return NewNXActionResubmitTableAction(vr.U16("inport"), vr.U8("table"))
	case 15:
		return NewNXActionResubmitTableCT(vr.U16("inport"), vr.U8("table"))
	case 16:
		return NewNXActionResubmitTableCTNoInPort(vr.U8("table"))
	case 17:
		nat := NewNXActionCTNAT()
		if w < 2 {
			// presets: ipv4-min only (length 20, padded to 24) / ipv4 min+max / ipv6-min+proto-min+proto-max / nothing
			nat.SetSNAT()
			np := 1
			if w == 1 {
				np = 4
			}
			switch vr.Choice("natpreset", np) {
			case 0:
				nat.SetRangeIPv4Min(symIP4("ip4min"))
			case 1:
				nat.SetRangeIPv4Min(symIP4("ip4min"))
				nat.SetRangeIPv4Max(symIP4("ip4max"))
			case 2:
				nat.SetRangeIPv6Min(symIP16("ip6min"))
				pmin, pmax := vr.U16("pmin"), vr.U16("pmax")
				nat.SetRangeProtoMin(&pmin)
				nat.SetRangeProtoMax(&pmax)
			}
			return nat
		}
		if vr.Bool("snat") {
			nat.SetSNAT()
		} else {
			nat.SetDNAT()
		}
		if vr.Bool("r4min") {
			nat.SetRangeIPv4Min(symIP4("ip4min"))
		}
		if vr.Bool("r4max") {
			nat.SetRangeIPv4Max(symIP4("ip4max"))
		}
		if vr.Bool("r6min") {
			nat.SetRangeIPv6Min(symIP16("ip6min"))
		}
		if vr.Bool("r6max") {
			nat.SetRangeIPv6Max(symIP16("ip6max"))
		}
		if vr.Bool("rpmin") {
			p := vr.U16("pmin")
			nat.SetRangeProtoMin(&p)
		}
		if vr.Bool("rpmax") {
			p := vr.U16("pmax")
			nat.SetRangeProtoMax(&p)
		}
		return nat
	case 18:
		return NewOutputFromField(regHeader(false), vr.U16("ofsnbits"))
	case 19:
		return NewOutputFromFieldWithMaxLen(regHeader(false), vr.U16("ofsnbits"), vr.U16("maxlen"))
	case 20:
		return NewNXActionCTClear()
	case 21:
		return NewNXActionDecTTL()
	case 22:
		k := vr.IntRange("nids", 0, 4)
		ids := make([]uint16, k)
		for i := range ids {
			ids[i] = vr.U16("id")
		}
		return NewNXActionDecTTLCntIDs(uint16(k), ids...)
	case 23:
		l := NewNXActionLearn()
		l.IdleTimeout, l.HardTimeout, l.Priority, l.Cookie = vr.U16("idle"), vr.U16("hard"), vr.U16("prio"), vr.U64("cookie")
		l.Flags, l.TableID, l.FinIdleTimeout, l.FinHardTimeout = vr.U16("flags"), vr.U8("table"), vr.U16("finidle"), vr.U16("finhard")
		k := vr.IntRange("nspecs", 0, w)
		for i := 0; i < k; i++ {
			l.LearnSpecs = append(l.LearnSpecs, buildLearnSpec())
		}
		return l
	case 24:
		n := NewNXActionNote()
		if w >= 2 {
			n.Note = vr.Bytes("note", vr.IntRange("notelen", 0, 9))
		} else {
			n.Note = vr.Bytes("note", []int{3, 0, 6, 7}[vr.Choice("notelen", 1+3*w)])
		}
		return n
	case 25:
		return NewNXActionRegLoad2(buildFieldShort(w - 1))
	case 26:
		c := NewNXActionController(vr.U16("ctrlid"))
		c.MaxLen, c.Reason = vr.U16("maxlen"), vr.U8("reason")
		return c
	}
	panic("buildAction: bad kind")
}

// actions that may sit inside a conntrack action in the harnesses (a fixed-size one, a
// variable-size one, the nat action that belongs there)
var ctNested = []int{17, 11, 24}

// representative action kinds for list harnesses: fixed 16 B, fixed 8 B, set-field (padded),
// conntrack with nested actions, note (variable, padded), learn, nat, resubmit
var actionShort = []int{0, 17, 8, 10, 24, 23, 2, 13, 22, 25}

// buildActionShort: w=0 → output or nat(ipv4-min); w>=1 → 5 kinds (quick) / 10 (thorough).
func buildActionShort(w int) Action {
	n := 2
	if w >= 1 {
		n = 5
		if vr.Thorough() {
			n = len(actionShort)
		}
	}
	return buildAction(actionShort[vr.Choice("akind", n)], w)
}

// ---- instructions ----

var instrKindNames = []string{"GotoTable", "WriteMetadata", "WriteActions", "ApplyActions"}

const nInstrKinds = 4

func buildInstr(kind int, maxActions int, w int) Instruction {
	vr.Note("instr", instrKindNames[kind])
	switch kind {
	case 0:
		return NewInstrGotoTable(vr.U8("table"))
	case 1:
		return NewInstrWriteMetadata(vr.U64("metadata"), vr.U64("metamask"))
	}
	var ia *InstrActions
	if kind == 2 {
		ia = NewInstrWriteActions()
	} else {
		ia = NewInstrApplyActions()
	}
	k := vr.IntRange("nacts", 0, maxActions)
	for i := 0; i < k; i++ {
		ia.AddAction(buildActionShort(w), vr.Bool("prepend"))
	}
	return ia
}

func buildBucket(maxActions int, w int) *Bucket {
	b := NewBucket()
	b.Weight, b.WatchPort, b.WatchGroup = vr.U16("weight"), vr.U32("watchport"), vr.U32("watchgroup")
	k := vr.IntRange("nbacts", 0, maxActions)
	for i := 0; i < k; i++ {
		b.AddAction(buildActionShort(w))
	}
	return b
}

// ---- controller-originated messages ----

var msgKindNames = []string{
	"Hello", "EchoRequest", "EchoReply", "FeaturesRequest", "GetConfigRequest", "BarrierRequest",
	"SetConfig", "FlowMod", "GroupMod", "PacketOut", "PortMod", "MultipartFlow", "MultipartAggregate",
	"MultipartPort", "MultipartQueue", "MultipartDesc", "MultipartTable", "SetControllerID", "TLVTableMod", "TLVTableRequest",
	"BundleControl",
}

const nMsgKinds = 21

// expected OpenFlow 1.3 type code per message kind (OF1.3.5 §A.1 ofp_type)
var msgTypeCode = []uint8{0, 2, 3, 5, 7, 20, 9, 14, 15, 13, 16, 18, 18, 18, 18, 18, 18, 4, 4, 4, 4}

func headerOfType(t uint8) *common.Header {
	h := NewOfp13Header()
	h.Type = t
	return &h
}

func buildMessage(kind int) util.Message {
	vr.Note("msg", msgKindNames[kind])
	switch kind {
	case 0:
		h, _ := common.NewHello(VERSION)
		return h
	case 1:
		return NewEchoRequest()
	case 2:
		return NewEchoReply()
	case 3:
		return NewFeaturesRequest()
	case 4:
		return NewConfigRequest()
	case 5:
		return headerOfType(Type_BarrierRequest)
	case 6:
		c := NewSetConfig()
		c.Flags, c.MissSendLen = vr.U16("flags"), vr.U16("misslen")
		return c
	case 7:
		f := NewFlowMod()
		f.Cookie, f.CookieMask, f.TableId, f.Command = vr.U64("cookie"), vr.U64("cookiemask"), vr.U8("table"), vr.U8("command")
		f.IdleTimeout, f.HardTimeout, f.Priority, f.BufferId = vr.U16("idle"), vr.U16("hard"), vr.U16("prio"), vr.U32("buffer")
		f.OutPort, f.OutGroup, f.Flags = vr.U32("outport"), vr.U32("outgroup"), vr.U16("flags")
		f.Match = *buildMatch(2, 0)
		k := vr.IntRange("ninstr", 0, 2)
		for i := 0; i < k; i++ {
			f.AddInstruction(buildInstr(vr.Choice("ikind", nInstrKinds), 1, 0))
		}
		return f
	case 8:
		g := NewGroupMod()
		g.Command, g.Type, g.GroupId = vr.U16("command"), vr.U8("gtype"), vr.U32("group")
		k := vr.IntRange("nbuckets", 0, 2)
		for i := 0; i < k; i++ {
			g.AddBucket(*buildBucket(1, 0))
		}
		return g
	case 9:
		p := NewPacketOut()
		p.BufferId, p.InPort = vr.U32("buffer"), vr.U32("inport")
		k := vr.IntRange("npacts", 0, 2)
		for i := 0; i < k; i++ {
			p.AddAction(buildActionShort(0))
		}
		if vr.Bool("hasdata") {
			p.SetData(vr.Bytes("payload", vr.IntRange("paylen", 0, 8)))
		}
		return p
	case 10:
		p := NewPortMod(vr.Int("port"))
		if vr.Bool("assign-hw") {
			// the address field is exported: a caller may assign any net.ParseMAC result (6, 8 or 20 bytes) or nil
			p.HWAddr = vr.Bytes("hw", []int{6, 8, 0, 20}[vr.Choice("hwlen", 4)])
		} else {
			copy(p.HWAddr, vr.Bytes("hw", 6))
		}
		p.Config, p.Mask, p.Advertise = vr.U32("config"), vr.U32("mask"), vr.U32("advertise")
		return p
	case 11:
		r := &MultipartRequest{Header: NewOfp13Header(), Type: MultipartType_Flow, Flags: vr.U16("flags")}
		r.Header.Type = Type_MultiPartRequest
		b := NewFlowStatsRequest()
		b.TableId, b.OutPort, b.OutGroup, b.Cookie, b.CookieMask = vr.U8("table"), vr.U32("outport"), vr.U32("outgroup"), vr.U64("cookie"), vr.U64("cookiemask")
		b.Match = *buildMatch(2, 0)
		r.Body = b
		return r
	case 12:
		r := &MultipartRequest{Header: NewOfp13Header(), Type: MultipartType_Aggregate, Flags: vr.U16("flags")}
		r.Header.Type = Type_MultiPartRequest
		b := NewAggregateStatsRequest()
		b.TableId, b.OutPort, b.OutGroup, b.Cookie, b.CookieMask = vr.U8("table"), vr.U32("outport"), vr.U32("outgroup"), vr.U64("cookie"), vr.U64("cookiemask")
		b.Match = *buildMatch(2, 0)
		r.Body = b
		return r
	case 13:
		r := &MultipartRequest{Header: NewOfp13Header(), Type: MultipartType_Port, Flags: vr.U16("flags")}
		r.Header.Type = Type_MultiPartRequest
		b := NewPortStatsRequest()
		b.PortNo = vr.U16("port")
		r.Body = b
		return r
	case 14:
		r := &MultipartRequest{Header: NewOfp13Header(), Type: MultipartType_Queue, Flags: vr.U16("flags")}
		r.Header.Type = Type_MultiPartRequest
		b := NewQueueStatsRequest()
		b.PortNo, b.QueueId = vr.U16("port"), vr.U32("queue")
		r.Body = b
		return r
	case 15:
		r := &MultipartRequest{Header: NewOfp13Header(), Type: MultipartType_Desc, Flags: vr.U16("flags")}
		r.Header.Type = Type_MultiPartRequest
		return r
	case 16:
		r := &MultipartRequest{Header: NewOfp13Header(), Type: MultipartType_Table, Flags: vr.U16("flags")}
		r.Header.Type = Type_MultiPartRequest
		return r
	case 17:
		return NewSetControllerID(vr.U16("ctrlid"))
	case 18:
		k := vr.IntRange("nmaps", 0, 2)
		var maps []*TLVTableMap
		for i := 0; i < k; i++ {
			maps = append(maps, &TLVTableMap{OptClass: vr.U16("class"), OptType: vr.U8("type"), OptLength: vr.U8("len"), Index: vr.U16("index")})
		}
		return NewTLVTableModMessage(NewTLVTableMod(vr.U16("command"), maps))
	case 19:
		return NewTLVTableRequest()
	case 20:
		return NewBundleControl(&BundleControl{BundleID: vr.U32("bundle"), Type: vr.U16("btype"), Flags: vr.U16("bflags")})
	}
	panic("buildMessage: bad kind")
}

func be16at(b []byte, off int) uint16 { return uint16(b[off])<<8 | uint16(b[off+1]) }
func be32at(b []byte, off int) uint32 {
	return uint32(b[off])<<24 | uint32(b[off+1])<<16 | uint32(b[off+2])<<8 | uint32(b[off+3])
}

// allZero reports (as one term) whether b[from:to] is all zero bytes.
func allZero(b []byte, from, to int) bool {
	ok := true
	for i := from; i < to; i++ {
		ok = vr.And(ok, b[i] == 0)
	}
	return ok
}
