//go:build verif

package openflow13

// C05 — library round trip: decoding the encoding of a value gives the same kind with the same
// exported fields, re-encoding reproduces the bytes, the decoded value reports the extent it
// occupied; also when other elements follow it (8 arbitrary trailing bytes), and for top-level
// messages through Parse. Bounds: one element (+ tail); lists of ≤ 2 inside containers.

import (
	"github.com/contiv/libOpenflow/util"
	vr "github.com/contiv/libOpenflow/verifrt"
)

// c05input returns the encoding followed by 0 or 8 arbitrary bytes (the next element in a list).
func c05input(b []byte) []byte {
	// exact-capacity input (make, not append): reads past the end must fault, not see spare capacity
	extra := 0
	var tail []byte
	if vr.Bool("followed") {
		tail = vr.Bytes("tail", 8)
		extra = 8
	}
	in := make([]byte, len(b)+extra)
	copy(in, b)
	copy(in[len(b):], tail)
	return in
}

// c05prep / c05norm bring the original into the form the wire can carry before it is compared with
// the decoded value: (1) a learn spec's immediate is the 2*ceil(n_bits/16) bytes the format holds;
// (2) a note is zero-padded to the action's 8-byte aligned size (the format has no note length);
// (3) delete commands carry no instructions / buckets; (4) the Length fields the encoders derive
// are brought up to date (Bucket values inside a GroupMod are encoded from copies); (5) an empty
// packet-out payload is no payload.
func c05prepAction(a Action) {
	switch x := a.(type) {
	case *NXActionLearn:
		for _, sp := range x.LearnSpecs {
			if sp.Header.src {
				sp.SrcValue = sp.SrcValue[:2*((int(sp.Header.nBits)+15)/16)]
			}
		}
	case *NXActionNote:
		pad := int(x.Len()) - 10 - len(x.Note)
		x.Note = append(append([]byte{}, x.Note...), make([]byte, pad)...)
	case *NXActionConnTrack:
		for _, n := range x.actions {
			c05prepAction(n)
		}
	}
}

func c05prep(m util.Message) {
	switch x := m.(type) {
	case Action:
		c05prepAction(x)
	case *InstrActions:
		for _, a := range x.Actions {
			c05prepAction(a)
		}
	case *Bucket:
		for _, a := range x.Actions {
			c05prepAction(a)
		}
		x.Length = x.Len()
	case *FlowMod:
		for _, in := range x.Instructions {
			c05prep(in)
		}
	case *GroupMod:
		for i := range x.Buckets {
			c05prep(&x.Buckets[i])
		}
	case *PacketOut:
		for _, a := range x.Actions {
			c05prepAction(a)
		}
	case *VendorHeader:
		if ba, ok := x.VendorData.(*BundleAdd); ok {
			c05prep(ba.Message)
		}
	case *MultipartReply:
		for _, r := range x.Body {
			if fs, ok := r.(*FlowStats); ok {
				for _, in := range fs.Instructions {
					c05prep(in)
				}
			}
		}
	}
}

func c05norm(m util.Message) {
	switch x := m.(type) {
	case *FlowMod:
		if x.Command == FC_DELETE || x.Command == FC_DELETE_STRICT {
			x.Instructions = nil
		}
	case *GroupMod:
		if x.Command == OFPGC_DELETE {
			x.Buckets = nil
		}
	case *PacketOut:
		if x.Data != nil && x.Data.Len() == 0 {
			x.Data = nil // an empty payload and no payload are the same bytes
		}
	case *VendorHeader:
		if ba, ok := x.VendorData.(*BundleAdd); ok {
			c05norm(ba.Message)
		}
	}
}

func c05same(v, w util.Message, b []byte) {
	c05norm(v)
	vr.Assert(int(w.Len()) == len(b), "decoded-extent==encoded-size")
	b2, err := w.MarshalBinary()
	vr.Assert(err == nil, "re-marshal-ok")
	vr.Assert(len(b2) == len(b), "re-encoding-size")
	vr.Assert(vr.BytesEq(b2, b), "re-encoding==bytes")
	vr.Assert(vr.DeepEq(v, w), "fields-equal")
}

func VerifC05_Field() {
	k := vr.Choice("kind", nFieldKinds)
	vr.Tag("kind", fieldKindNames[k])
	v := buildField(k)
	b, _ := v.MarshalBinary()
	w := new(MatchField)
	err := w.UnmarshalBinary(c05input(b))
	vr.Assert(err == nil, "decode-ok")
	c05same(v, w, b)
}

func VerifC05_Match() {
	v := buildMatch(2, 1)
	b, _ := v.MarshalBinary()
	w := new(Match)
	err := w.UnmarshalBinary(c05input(b))
	vr.Assert(err == nil, "decode-ok")
	c05same(v, w, b)
}

func VerifC05_Action() {
	k := vr.Choice("kind", nActionKinds)
	vr.Tag("kind", actionKindNames[k])
	v := buildAction(k, 1)
	c05prep(v)
	b, _ := v.MarshalBinary()
	w, err := DecodeAction(c05input(b))
	vr.Assert(err == nil, "decode-ok")
	vr.Assert(w != nil, "decoded-non-nil")
	c05same(v, w, b)
}

func VerifC05_Instr() {
	k := vr.Choice("kind", nInstrKinds)
	vr.Tag("kind", instrKindNames[k])
	v := buildInstr(k, 2, 1)
	c05prep(v)
	b, _ := v.MarshalBinary()
	w := DecodeInstr(c05input(b))
	vr.Assert(w != nil, "decoded-non-nil")
	c05same(v, w, b)
}

func VerifC05_Bucket() {
	v := buildBucket(2, 1)
	c05prep(v)
	b, _ := v.MarshalBinary()
	w := new(Bucket)
	err := w.UnmarshalBinary(c05input(b))
	vr.Assert(err == nil, "decode-ok")
	c05same(v, w, b)
}

func VerifC05_LearnSpec() {
	v := buildLearnSpec()
	if v.Header.src {
		// the encoder takes the first 2*ceil(n_bits/16) bytes of the immediate; compare like with like
		v.SrcValue = v.SrcValue[:2*((int(v.Header.nBits)+15)/16)]
	}
	b, _ := v.MarshalBinary()
	w := new(NXLearnSpec)
	err := w.UnmarshalBinary(c05input(b))
	vr.Assert(err == nil, "decode-ok")
	c05same(v, w, b)
}

// top-level messages through the parser entry point
func VerifC05_Parse() {
	k := vr.Choice("kind", nSwKinds)
	vr.Tag("kind", swKindNames[k])
	v := buildSwitchMessage(k)
	c05prep(v)
	b, err := v.MarshalBinary()
	vr.Assert(err == nil, "marshal-ok")
	in := make([]byte, len(b))
	copy(in, b)
	w, err := Parse(in)
	vr.Assert(err == nil, "parse-ok")
	vr.Assert(w != nil, "parsed-non-nil")
	c05same(v, w, b)
}

// request bodies and the controller-side kinds the parser does not dispatch on: direct decoders
func VerifC05_Direct() {
	k := []int{8, 9, 10, 11, 12, 13, 14}[vr.Choice("kind", 7)]
	vr.Tag("kind", msgKindNames[k])
	v := buildMessage(k)
	if pm, ok := v.(*PortMod); ok && len(pm.HWAddr) != 6 {
		vr.Assume(false) // a port-mod carries a 6-byte address; other lengths are not representable on the wire
	}
	c05prep(v)
	b, _ := v.MarshalBinary()
	var w util.Message
	switch k {
	case 8:
		w = NewGroupMod()
	case 9:
		w = NewPacketOut()
	case 10:
		w = NewPortMod(0)
	default:
		w = new(MultipartRequest)
	}
	in := make([]byte, len(b))
	copy(in, b)
	err := w.UnmarshalBinary(in)
	vr.Assert(err == nil, "decode-ok")
	c05same(v, w, b)
}

// bundle-add wrapping each vendor / small message kind, with 0..2 properties (with data) behind
// the embedded message: the embedded message must not swallow what follows it
func VerifC05_BundleAddWithProperties() {
	k := []int{17, 18, 19, 20, 6}[vr.Choice("inner", 5)]
	vr.Tag("inner", msgKindNames[k])
	inner := buildMessage(k)
	c05prep(inner)
	ba := &BundleAdd{BundleID: vr.U32("bundle"), Flags: vr.U16("bflags"), Message: inner}
	np := vr.IntRange("nprops", 0, 2)
	for i := 0; i < np; i++ {
		p := NewBundlePropertyExperimenter()
		p.ExperimenterID, p.ExperimenterType = vr.U32("expid"), vr.U32("exptype")
		p.data = vr.Bytes("propdata", []int{0, 3, 4}[vr.Choice("propdatalen", 3)])
		p.Length = 12 + uint16(len(p.data))
		ba.Properties = append(ba.Properties, *p)
	}
	v := NewBundleAdd(ba)
	b, err := v.MarshalBinary()
	vr.Assert(err == nil, "marshal-ok")
	in := make([]byte, len(b))
	copy(in, b)
	w, err := Parse(in)
	vr.Assert(err == nil, "parse-ok")
	vr.Assert(w != nil, "parsed-non-nil")
	c05same(v, w, b)
}
