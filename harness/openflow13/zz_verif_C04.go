//go:build verif

package openflow13

// C04 — parsing specification-conformant bytes of every switch-originated message kind yields
// a message of the corresponding kind whose fields equal the values an independent encoder
// wrote. The independent encoder is the reference writer of zz_verif_ref.go (layouts of
// DESIGN.md Appendix A); values are symbolic at full width; lists hold ≤ 2 elements
// (3 thorough); packet payload ≤ 8 B raw after an Ethernet header.

import (
	"github.com/contiv/libOpenflow/common"
	vr "github.com/contiv/libOpenflow/verifrt"
)

func c04n() int {
	if vr.Thorough() {
		return 3
	}
	return 2
}

func c04parse(w *refW) interface{} {
	c03finish(w)
	in := make([]byte, len(w.b))
	copy(in, w.b)
	m, err := Parse(in)
	vr.Assert(err == nil, "parse-ok")
	vr.Assert(m != nil, "parsed-non-nil")
	return m
}

func c04hdr(w *refW, typ uint8) uint32 {
	xid := vr.U32("xid")
	c03header(w, typ, xid)
	return xid
}

func c04checkHeader(h *common.Header, typ uint8, xid uint32, n int) {
	vr.Assert(h.Version == 4 && h.Type == typ && h.Xid == xid && int(h.Length) == n, "header-fields")
}

// c04allKinds: the thorough tier draws the first field of a match from every kind; list harnesses
// turn it off for all but their first element
var c04allKinds = true

// c04match writes a match with k fields and returns the OXM bytes of each field
func c04match(w *refW, max int) [][]byte {
	start := len(w.b)
	w.u16(1)
	w.u16(0)
	var oxms [][]byte
	k := vr.IntRange("nfields", 0, max)
	for i := 0; i < k; i++ {
		// quick: 1-byte, masked 6-byte, masked 2-byte, 4-byte and masked 16-byte kinds; thorough: every
		// kind in the first position (every kind followed by a second field is MatchFieldKinds' subject)
		all := vr.Thorough() && i == 0 && c04allKinds
		kinds := 5
		if all {
			kinds = nFieldKinds - 2
		}
		kind := vr.Choice("fkind", kinds)
		if !all {
			kind = fieldShort[kind]
		}
		shortMode = true
		_ = buildField(kind) // draws the symbolic value / mask (the library object is not used)
		shortMode = false
		fw := &refW{}
		refOXM(fw)
		oxms = append(oxms, fw.b)
		w.raw(fw.b)
	}
	w.setU16(start+2, uint16(len(w.b)-start))
	w.padTo8()
	return oxms
}

func c04checkMatch(m *Match, oxms [][]byte) {
	vr.Assert(m.Type == 1, "match-type")
	vr.Assert(len(m.Fields) == len(oxms), "match-field-count")
	n := 4
	for i := range oxms {
		if i < len(m.Fields) {
			fb, err := m.Fields[i].MarshalBinary()
			vr.Assert(err == nil && vr.BytesEq(fb, oxms[i]), "match-field-as-written")
			// class / field / mask flag / payload length as written
			vr.Assert(m.Fields[i].Class == uint16(oxms[i][0])<<8|uint16(oxms[i][1]), "match-field-class")
			vr.Assert(m.Fields[i].Field == oxms[i][2]>>1, "match-field-number")
			vr.Assert(m.Fields[i].HasMask == (oxms[i][2]&1 == 1), "match-field-hasmask")
			vr.Assert(m.Fields[i].Length == oxms[i][3], "match-field-length")
			if oxms[i][2]&1 == 0 {
				vr.Assert(m.Fields[i].Mask == nil, "unmasked-field-has-no-mask")
			}
			if oxms[i][0] != 0xff || oxms[i][1] != 0xff {
				vr.Assert(m.Fields[i].ExperimenterID == 0, "non-experimenter-field-has-no-experimenter-id")
			}
		}
		n += len(oxms[i])
	}
	vr.Assert(int(m.Length) == n, "match-length")
}

func VerifC04_Hello() {
	w := &refW{}
	xid := c04hdr(w, 0)
	k := vr.IntRange("nelems", 0, c04n())
	var maps [][]uint32
	for i := 0; i < k; i++ {
		nw := vr.IntRange("nwords", 1, 2)
		w.u16(1)
		w.u16(uint16(4 + 4*nw))
		var ws []uint32
		for j := 0; j < nw; j++ {
			v := vr.U32("bitmap")
			ws = append(ws, v)
			w.u32(v)
		}
		w.padTo8()
		maps = append(maps, ws)
	}
	h, ok := c04parse(w).(*common.Hello)
	vr.Assert(ok, "kind")
	c04checkHeader(&h.Header, 0, xid, len(w.b))
	vr.Assert(len(h.Elements) == len(maps), "element-count")
	for i := range maps {
		if i < len(h.Elements) {
			e, ok := h.Elements[i].(*common.HelloElemVersionBitmap)
			vr.Assert(ok, "element-kind")
			vr.Assert(e.Type == 1 && int(e.Length) == 4+4*len(maps[i]), "element-header")
			vr.Assert(len(e.Bitmaps) == len(maps[i]), "bitmap-count")
			for j := range maps[i] {
				if j < len(e.Bitmaps) {
					vr.Assert(e.Bitmaps[j] == maps[i][j], "bitmap-value")
				}
			}
		}
	}
}

func VerifC04_Error() {
	w := &refW{}
	xid := c04hdr(w, 1)
	et, code := vr.U16("etype"), vr.U16("ecode")
	data := vr.Bytes("edata", vr.IntRange("edatalen", 0, 8))
	if vr.Bool("experimenter") {
		exp := vr.U32("experimenter")
		w.u16(0xffff)
		w.u16(code)
		w.u32(exp)
		w.raw(data)
		e, ok := c04parse(w).(*VendorError)
		vr.Assert(ok, "kind")
		c04checkHeader(&e.Header, 1, xid, len(w.b))
		vr.Assert(e.Type == 0xffff && e.Code == code && e.ExperimenterID == exp, "fields")
		vr.Assert(vr.BytesEq(e.Data.Bytes(), data), "data")
		return
	}
	vr.Assume(et != 0xffff)
	w.u16(et)
	w.u16(code)
	w.raw(data)
	e, ok := c04parse(w).(*ErrorMsg)
	vr.Assert(ok, "kind")
	c04checkHeader(&e.Header, 1, xid, len(w.b))
	vr.Assert(e.Type == et && e.Code == code, "fields")
	vr.Assert(vr.BytesEq(e.Data.Bytes(), data), "data")
}

func VerifC04_HeaderOnly() {
	typ := []uint8{2, 3, 21}[vr.Choice("type", 3)]
	w := &refW{}
	xid := c04hdr(w, typ)
	h, ok := c04parse(w).(*common.Header)
	vr.Assert(ok, "kind")
	c04checkHeader(h, typ, xid, 8)
}

func VerifC04_FeaturesReply() {
	w := &refW{}
	xid := c04hdr(w, 6)
	dpid := vr.Bytes("dpid", 8)
	nb, nt, aux, caps, res := vr.U32("buffers"), vr.U8("ntables"), vr.U8("aux"), vr.U32("caps"), vr.U32("reserved")
	w.raw(dpid)
	w.u32(nb)
	w.u8(nt)
	w.u8(aux)
	w.zeros(2)
	w.u32(caps)
	w.u32(res)
	f, ok := c04parse(w).(*SwitchFeatures)
	vr.Assert(ok, "kind")
	c04checkHeader(&f.Header, 6, xid, 32)
	vr.Assert(vr.BytesEq(f.DPID, dpid), "datapath-id")
	vr.Assert(f.Buffers == nb && f.NumTables == nt && f.AuxilaryId == aux && f.Capabilities == caps && f.Actions == res, "fields")
}

func VerifC04_GetConfigReply() {
	w := &refW{}
	xid := c04hdr(w, 8)
	fl, ms := vr.U16("flags"), vr.U16("misslen")
	w.u16(fl)
	w.u16(ms)
	c, ok := c04parse(w).(*SwitchConfig)
	vr.Assert(ok, "kind")
	c04checkHeader(&c.Header, 8, xid, 12)
	vr.Assert(c.Flags == fl && c.MissSendLen == ms, "fields")
}

func VerifC04_PacketIn() {
	w := &refW{}
	xid := c04hdr(w, 10)
	buf, tl, reason, table, cookie := vr.U32("buffer"), vr.U16("totlen"), vr.U8("reason"), vr.U8("table"), vr.U64("cookie")
	w.u32(buf)
	w.u16(tl)
	w.u8(reason)
	w.u8(table)
	w.u64(cookie)
	oxms := c04match(w, c04n())
	w.zeros(2)
	// the packet: Ethernet header with an ethertype no payload decoder claims, raw payload
	dst, src, et := vr.Bytes("ethdst", 6), vr.Bytes("ethsrc", 6), vr.U16("ethertype")
	vr.Assume(et != 0x0800 && et != 0x86dd && et != 0x0806 && et != 0x8100)
	payload := vr.Bytes("payload", vr.IntRange("paylen", 0, 8))
	w.raw(dst)
	w.raw(src)
	w.u16(et)
	w.raw(payload)
	p, ok := c04parse(w).(*PacketIn)
	vr.Assert(ok, "kind")
	c04checkHeader(&p.Header, 10, xid, len(w.b))
	vr.Assert(p.BufferId == buf && p.TotalLen == tl && p.Reason == reason && p.TableId == table && p.Cookie == cookie, "fields")
	c04checkMatch(&p.Match, oxms)
	vr.Assert(vr.BytesEq(p.Data.HWDst, dst) && vr.BytesEq(p.Data.HWSrc, src) && p.Data.Ethertype == et, "ethernet-header")
	pb, _ := p.Data.Data.MarshalBinary()
	vr.Assert(vr.BytesEq(pb, payload), "packet-payload")
}

func VerifC04_FlowRemoved() {
	w := &refW{}
	xid := c04hdr(w, 11)
	cookie, prio, reason, table := vr.U64("cookie"), vr.U16("prio"), vr.U8("reason"), vr.U8("table")
	ds, dn, idle, hard, pk, by := vr.U32("dsec"), vr.U32("dnsec"), vr.U16("idle"), vr.U16("hard"), vr.U64("pkts"), vr.U64("bytes")
	w.u64(cookie)
	w.u16(prio)
	w.u8(reason)
	w.u8(table)
	w.u32(ds)
	w.u32(dn)
	w.u16(idle)
	w.u16(hard)
	w.u64(pk)
	w.u64(by)
	oxms := c04match(w, c04n())
	f, ok := c04parse(w).(*FlowRemoved)
	vr.Assert(ok, "kind")
	c04checkHeader(&f.Header, 11, xid, len(w.b))
	vr.Assert(f.Cookie == cookie && f.Priority == prio && f.Reason == reason && f.TableId == table, "fields-1")
	vr.Assert(f.DurationSec == ds && f.DurationNSec == dn && f.IdleTimeout == idle && f.HardTimeout == hard && f.PacketCount == pk && f.ByteCount == by, "fields-2")
	c04checkMatch(&f.Match, oxms)
}

type c04port struct {
	no                                               uint32
	hw, name                                         []byte
	config, state, curr, adv, supp, peer, cspd, mspd uint32
}

func c04writePort(w *refW) c04port {
	p := c04port{no: vr.U32("portno"), hw: vr.Bytes("hw", 6), name: vr.Bytes("name", 16)}
	p.config, p.state, p.curr, p.adv = vr.U32("config"), vr.U32("state"), vr.U32("curr"), vr.U32("adv")
	p.supp, p.peer, p.cspd, p.mspd = vr.U32("supp"), vr.U32("peer"), vr.U32("cspeed"), vr.U32("mspeed")
	w.u32(p.no)
	w.zeros(4)
	w.raw(p.hw)
	w.zeros(2)
	w.raw(p.name)
	w.u32(p.config)
	w.u32(p.state)
	w.u32(p.curr)
	w.u32(p.adv)
	w.u32(p.supp)
	w.u32(p.peer)
	w.u32(p.cspd)
	w.u32(p.mspd)
	return p
}

func c04checkPort(d *PhyPort, p c04port) {
	vr.Assert(d.PortNo == p.no && vr.BytesEq(d.HWAddr, p.hw) && vr.BytesEq(d.Name, p.name), "port-identity")
	vr.Assert(d.Config == p.config && d.State == p.state && d.Curr == p.curr && d.Advertised == p.adv, "port-fields-1")
	vr.Assert(d.Supported == p.supp && d.Peer == p.peer && d.CurrSpeed == p.cspd && d.MaxSpeed == p.mspd, "port-fields-2")
}

func VerifC04_PortStatus() {
	w := &refW{}
	xid := c04hdr(w, 12)
	reason := vr.U8("reason")
	w.u8(reason)
	w.zeros(7)
	p := c04writePort(w)
	s, ok := c04parse(w).(*PortStatus)
	vr.Assert(ok, "kind")
	c04checkHeader(&s.Header, 12, xid, 80)
	vr.Assert(s.Reason == reason, "reason")
	c04checkPort(&s.Desc, p)
}

func c04mp(w *refW, t uint16) (uint32, uint16) {
	xid := c04hdr(w, 19)
	flags := vr.U16("mpflags")
	w.u16(t)
	w.u16(flags)
	w.zeros(4)
	return xid, flags
}

func c04mpCheck(m interface{}, t uint16, xid uint32, flags uint16, n int, nrec int) *MultipartReply {
	r, ok := m.(*MultipartReply)
	vr.Assert(ok, "kind")
	c04checkHeader(&r.Header, 19, xid, n)
	vr.Assert(r.Type == t && r.Flags == flags, "multipart-header")
	vr.Assert(len(r.Body) == nrec, "record-count")
	return r
}

func VerifC04_MultipartDesc() {
	w := &refW{}
	xid, flags := c04mp(w, 0)
	mfr, hwd, swd, ser, dpd := vr.Bytes("mfr", 8), vr.Bytes("hw", 8), vr.Bytes("sw", 8), vr.Bytes("serial", 8), vr.Bytes("dp", 8)
	for _, f := range [][]byte{mfr, hwd, swd} {
		w.raw(f)
		w.zeros(256 - len(f))
	}
	w.raw(ser)
	w.zeros(32 - len(ser))
	w.raw(dpd)
	w.zeros(256 - len(dpd))
	r := c04mpCheck(c04parse(w), 0, xid, flags, len(w.b), 1)
	d, ok := r.Body[0].(*DescStats)
	vr.Assert(ok, "record-kind")
	vr.Assert(vr.BytesEq(d.MfrDesc[:8], mfr) && vr.BytesEq(d.HWDesc[:8], hwd) && vr.BytesEq(d.SWDesc[:8], swd) && vr.BytesEq(d.SerialNum[:8], ser) && vr.BytesEq(d.DPDesc[:8], dpd), "descriptions")
	vr.Assert(len(d.MfrDesc) == 256 && len(d.HWDesc) == 256 && len(d.SWDesc) == 256 && len(d.SerialNum) == 32 && len(d.DPDesc) == 256, "description-sizes")
}

func VerifC04_MultipartFlow() {
	w := &refW{}
	xid, flags := c04mp(w, 1)
	k := vr.IntRange("nrec", 0, 2)
	type rec struct {
		table                    uint8
		ds, dn                   uint32
		prio, idle, hard, fflags uint16
		cookie, pk, by           uint64
		oxms                     [][]byte
		instrs                   []byte
		ninstr                   int
	}
	var recs []rec
	for i := 0; i < k; i++ {
		start := len(w.b)
		r := rec{table: vr.U8("table"), ds: vr.U32("dsec"), dn: vr.U32("dnsec"), prio: vr.U16("prio"), idle: vr.U16("idle"), hard: vr.U16("hard"), fflags: vr.U16("fflags"), cookie: vr.U64("cookie"), pk: vr.U64("pkts"), by: vr.U64("bytes")}
		w.u16(0)
		w.u8(r.table)
		w.zeros(1)
		w.u32(r.ds)
		w.u32(r.dn)
		w.u16(r.prio)
		w.u16(r.idle)
		w.u16(r.hard)
		w.u16(r.fflags)
		w.zeros(4)
		w.u64(r.cookie)
		w.u64(r.pk)
		w.u64(r.by)
		c04allKinds = i == 0
		r.oxms = c04match(w, 1)
		c04allKinds = true
		// instruction lists: none / goto-table / goto-table + apply-actions with one action
		// (the thorough tier widens the first record's match to every field kind instead: three
		// records with arbitrary instructions ran to millions of paths)
		iw := &refW{}
		r.ninstr = vr.IntRange("ninstr", 0, 2)
		if r.ninstr >= 1 {
			c03instr(0, iw, 0)
		}
		if r.ninstr == 2 {
			c03instr(3, iw, 1)
		}
		r.instrs = iw.b
		w.raw(iw.b)
		w.setU16(start, uint16(len(w.b)-start))
		recs = append(recs, r)
	}
	rp := c04mpCheck(c04parse(w), 1, xid, flags, len(w.b), k)
	for i, r := range recs {
		if i >= len(rp.Body) {
			break
		}
		s, ok := rp.Body[i].(*FlowStats)
		vr.Assert(ok, "record-kind")
		vr.Assert(s.TableId == r.table && s.DurationSec == r.ds && s.DurationNSec == r.dn && s.Priority == r.prio, "flow-fields-1")
		vr.Assert(s.IdleTimeout == r.idle && s.HardTimeout == r.hard && s.Flags == r.fflags && s.Cookie == r.cookie && s.PacketCount == r.pk && s.ByteCount == r.by, "flow-fields-2")
		c04checkMatch(&s.Match, r.oxms)
		vr.Assert(len(s.Instructions) == r.ninstr, "instruction-count")
		var ib []byte
		for _, in := range s.Instructions {
			b, _ := in.MarshalBinary()
			ib = append(ib, b...)
		}
		vr.Assert(len(ib) == len(r.instrs) && vr.BytesEq(ib, r.instrs), "instructions-as-written")
	}
}

func VerifC04_MultipartAggregate() {
	w := &refW{}
	xid, flags := c04mp(w, 2)
	pk, by, fc := vr.U64("pkts"), vr.U64("bytes"), vr.U32("flows")
	w.u64(pk)
	w.u64(by)
	w.u32(fc)
	w.zeros(4)
	r := c04mpCheck(c04parse(w), 2, xid, flags, len(w.b), 1)
	a, ok := r.Body[0].(*AggregateStats)
	vr.Assert(ok, "record-kind")
	vr.Assert(a.PacketCount == pk && a.ByteCount == by && a.FlowCount == fc, "fields")
}

// OpenFlow 1.3 table stats (24 B): table_id(1) pad(3) active_count(4) lookup_count(8) matched_count(8)
func VerifC04_MultipartTable() {
	w := &refW{}
	xid, flags := c04mp(w, 3)
	k := vr.IntRange("nrec", 1, c04n())
	type rec struct {
		table  uint8
		active uint32
		lk, mt uint64
	}
	var recs []rec
	for i := 0; i < k; i++ {
		r := rec{vr.U8("table"), vr.U32("active"), vr.U64("lookups"), vr.U64("matched")}
		w.u8(r.table)
		w.zeros(3)
		w.u32(r.active)
		w.u64(r.lk)
		w.u64(r.mt)
		recs = append(recs, r)
	}
	rp := c04mpCheck(c04parse(w), 3, xid, flags, len(w.b), k)
	for i, r := range recs {
		if i >= len(rp.Body) {
			break
		}
		s, ok := rp.Body[i].(*TableStats)
		vr.Assert(ok, "record-kind")
		vr.Assert(s.TableId == r.table && s.ActiveCount == r.active && s.LookupCount == r.lk && s.MatchedCount == r.mt, "fields")
	}
}

// OpenFlow 1.3 port stats (112 B): port_no(4) pad(4) 12 counters(8 each) duration_sec(4) duration_nsec(4)
func VerifC04_MultipartPort() {
	w := &refW{}
	xid, flags := c04mp(w, 4)
	k := vr.IntRange("nrec", 1, c04n())
	type rec struct {
		port uint32
		c    [12]uint64
	}
	var recs []rec
	for i := 0; i < k; i++ {
		r := rec{port: vr.U32("port")}
		w.u32(r.port)
		w.zeros(4)
		for j := range r.c {
			r.c[j] = vr.U64("counter")
			w.u64(r.c[j])
		}
		w.u32(vr.U32("dsec"))
		w.u32(vr.U32("dnsec"))
		recs = append(recs, r)
	}
	rp := c04mpCheck(c04parse(w), 4, xid, flags, len(w.b), k)
	for i, r := range recs {
		if i >= len(rp.Body) {
			break
		}
		s, ok := rp.Body[i].(*PortStats)
		vr.Assert(ok, "record-kind")
		vr.Assert(uint32(s.PortNo) == r.port, "port-number")
		vr.Assert(s.RxPackets == r.c[0] && s.TxPackets == r.c[1] && s.RxBytes == r.c[2] && s.TxBytes == r.c[3] && s.RxDropped == r.c[4] && s.TxDropped == r.c[5], "counters-1")
		vr.Assert(s.RxErrors == r.c[6] && s.TxErrors == r.c[7] && s.RxFrameErr == r.c[8] && s.RxOverErr == r.c[9] && s.RxCRCErr == r.c[10] && s.Collisions == r.c[11], "counters-2")
	}
}

// OpenFlow 1.3 queue stats (40 B): port_no(4) queue_id(4) tx_bytes(8) tx_packets(8) tx_errors(8) duration_sec(4) duration_nsec(4)
func VerifC04_MultipartQueue() {
	w := &refW{}
	xid, flags := c04mp(w, 5)
	k := vr.IntRange("nrec", 1, c04n())
	type rec struct {
		port, queue uint32
		tb, tp, te  uint64
	}
	var recs []rec
	for i := 0; i < k; i++ {
		r := rec{vr.U32("port"), vr.U32("queue"), vr.U64("txb"), vr.U64("txp"), vr.U64("txe")}
		w.u32(r.port)
		w.u32(r.queue)
		w.u64(r.tb)
		w.u64(r.tp)
		w.u64(r.te)
		w.u32(vr.U32("dsec"))
		w.u32(vr.U32("dnsec"))
		recs = append(recs, r)
	}
	rp := c04mpCheck(c04parse(w), 5, xid, flags, len(w.b), k)
	for i, r := range recs {
		if i >= len(rp.Body) {
			break
		}
		s, ok := rp.Body[i].(*QueueStats)
		vr.Assert(ok, "record-kind")
		vr.Assert(uint32(s.PortNo) == r.port && s.QueueId == r.queue && s.TxBytes == r.tb && s.TxPackets == r.tp && s.TxErrors == r.te, "fields")
	}
}

func VerifC04_VendorReplies() {
	w := &refW{}
	xid := c04hdr(w, 4)
	if vr.Bool("bundle") {
		id, t, fl := vr.U32("bundle"), vr.U16("btype"), vr.U16("bflags")
		w.u32(0x4f4e4600)
		w.u32(2300)
		w.u32(id)
		w.u16(t)
		w.u16(fl)
		v, ok := c04parse(w).(*VendorHeader)
		vr.Assert(ok, "kind")
		c04checkHeader(&v.Header, 4, xid, 24)
		vr.Assert(v.Vendor == 0x4f4e4600 && v.ExperimenterType == 2300, "vendor-header")
		bc, ok := v.VendorData.(*BundleControl)
		vr.Assert(ok, "payload-kind")
		vr.Assert(bc.BundleID == id && bc.Type == t && bc.Flags == fl, "fields")
		return
	}
	ms, mf := vr.U32("maxspace"), vr.U16("maxfields")
	w.u32(0x2320)
	w.u32(26)
	w.u32(ms)
	w.u16(mf)
	w.zeros(10)
	k := vr.IntRange("nmaps", 0, c04n())
	type mp struct {
		class uint16
		typ   uint8
		ln    uint8
		idx   uint16
	}
	var maps []mp
	for i := 0; i < k; i++ {
		m := mp{vr.U16("class"), vr.U8("type"), vr.U8("len"), vr.U16("index")}
		w.u16(m.class)
		w.u8(m.typ)
		w.u8(m.ln)
		w.u16(m.idx)
		w.zeros(2)
		maps = append(maps, m)
	}
	v, ok := c04parse(w).(*VendorHeader)
	vr.Assert(ok, "kind")
	c04checkHeader(&v.Header, 4, xid, len(w.b))
	vr.Assert(v.Vendor == 0x2320 && v.ExperimenterType == 26, "vendor-header")
	t, ok := v.VendorData.(*TLVTableReply)
	vr.Assert(ok, "payload-kind")
	vr.Assert(t.MaxSpace == ms && t.MaxFields == mf, "fields")
	vr.Assert(len(t.TlvMaps) == k, "map-count")
	for i, m := range maps {
		if i < len(t.TlvMaps) {
			vr.Assert(t.TlvMaps[i].OptClass == m.class && t.TlvMaps[i].OptType == m.typ && t.TlvMaps[i].OptLength == m.ln && t.TlvMaps[i].Index == m.idx, "map-fields")
		}
	}
}

// every decodable match-field kind, masked and unmasked, followed by a second field: the
// decoder must consume exactly the first field's bytes and expose both as written
func VerifC04_MatchFieldKinds() {
	w := &refW{}
	xid := c04hdr(w, 11)
	w.zeros(40)
	start := len(w.b)
	w.u16(1)
	w.u16(0)
	k := vr.Choice("fkind", nFieldKinds-2)
	vr.Tag("kind", fieldKindNames[k])
	var oxms [][]byte
	for _, kind := range []int{k, 0} {
		_ = buildField(kind)
		fw := &refW{}
		refOXM(fw)
		oxms = append(oxms, fw.b)
		w.raw(fw.b)
	}
	w.setU16(start+2, uint16(len(w.b)-start))
	w.padTo8()
	f, ok := c04parse(w).(*FlowRemoved)
	vr.Assert(ok, "kind")
	c04checkHeader(&f.Header, 11, xid, len(w.b))
	c04checkMatch(&f.Match, oxms)
}

// an ONF experimenter-class OXM (class 0xffff, experimenter id 0x4f4e4600 counted in the
// length: tcp_flags 42 or actset_output 43) between ordinary fields: the fields after it are
// found at their own offsets and carry none of its state
func VerifC04_ExperimenterOXM() {
	w := &refW{}
	xid := c04hdr(w, 11)
	w.zeros(40)
	start := len(w.b)
	w.u16(1)
	w.u16(0)
	var oxms [][]byte
	add := func(fw *refW) {
		oxms = append(oxms, fw.b)
		w.raw(fw.b)
	}
	fw := &refW{}
	_ = buildField(1) // eth_dst, masked or not
	refOXM(fw)
	add(fw)
	fw = &refW{}
	fw.u16(0xffff)
	if vr.Bool("actset-output") {
		fw.u8(43 << 1)
		fw.u8(8)
		fw.u32(0x4f4e4600)
		fw.u32(vr.U32("port"))
	} else {
		fw.u8(42 << 1)
		fw.u8(6)
		fw.u32(0x4f4e4600)
		fw.u16(vr.U16("tcpflags"))
	}
	add(fw)
	for _, kind := range []int{0, 16} {
		fw = &refW{}
		_ = buildField(kind)
		refOXM(fw)
		add(fw)
	}
	w.setU16(start+2, uint16(len(w.b)-start))
	w.padTo8()
	f, ok := c04parse(w).(*FlowRemoved)
	vr.Assert(ok, "kind")
	c04checkHeader(&f.Header, 11, xid, len(w.b))
	c04checkMatch(&f.Match, oxms)
}
