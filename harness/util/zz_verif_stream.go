//go:build verif

package util

// Harnesses for the message stream (C10 inbound de-framing + parser worker, C11 outbound writer).
// The goroutine bodies are run as ordinary functions on a MessageStream built directly (no
// goroutines are started), with a scripted in-memory net.Conn and channels modelled as FIFOs.
// What the solver decides: each goroutine's sequential obligation, for all stream contents and
// all chunkings within the bounds. That these obligations compose under every scheduler
// interleaving rests on Go's channel semantics (trusted), see DESIGN.md §4 C10/C11.

import (
	"bytes"
	"io"
	"net"
	"time"

	vr "github.com/contiv/libOpenflow/verifrt"
)

type scriptErr struct{ msg string }

func (e *scriptErr) Error() string { return e.msg }

// scriptConn: Read hands out the stream in the scripted chunk sizes, then fails with finalErr;
// Write records its argument (a copy) or fails when writeErr is set.
type scriptConn struct {
	stream   []byte
	pos      int
	chunks   []int
	k        int
	finalErr error
	writes   [][]byte
	writeErr error
	closed   int
	// errAt >= 0: the read with that index returns its chunk together with chunkErr (io.Reader
	// allows data and an error from the same call)
	errAt    int
	chunkErr error
	// honourDeadlines: an armed read deadline makes a read without data time out; a write more
	// than 10 s (the library's messageTimeout) of logical time after the write deadline was armed
	// times out. Logical time advances by gapAfterWrite seconds after each completed write (the
	// time the writer then waits for the next submission).
	honourDeadlines bool
	readDeadline    bool
	writeDeadline   bool
	writeArmedAt    int
	tick            int
	gapAfterWrite   int
}

func (c *scriptConn) Read(b []byte) (int, error) {
	if c.k >= len(c.chunks) {
		if c.honourDeadlines && c.readDeadline {
			return 0, &scriptErr{"read tcp 127.0.0.1:1->127.0.0.1:2: i/o timeout"}
		}
		return 0, c.finalErr
	}
	n := c.chunks[c.k]
	c.k++
	copy(b, c.stream[c.pos:c.pos+n])
	c.pos += n
	if c.chunkErr != nil && c.k-1 == c.errAt {
		return n, c.chunkErr
	}
	return n, nil
}

// timeoutErr: a net.Error whose Timeout() is true
type timeoutErr struct{}

func (timeoutErr) Error() string   { return "read tcp 127.0.0.1:1->127.0.0.1:2: i/o timeout" }
func (timeoutErr) Timeout() bool   { return true }
func (timeoutErr) Temporary() bool { return true }

func (c *scriptConn) Write(b []byte) (int, error) {
	if c.writeErr != nil {
		return 0, c.writeErr
	}
	if c.honourDeadlines && c.writeDeadline && c.tick-c.writeArmedAt > 10 {
		return 0, timeoutErr{}
	}
	cp := make([]byte, len(b))
	copy(cp, b)
	c.writes = append(c.writes, cp)
	c.tick += c.gapAfterWrite
	return len(b), nil
}

func (c *scriptConn) Close() error         { c.closed++; return nil }
func (c *scriptConn) LocalAddr() net.Addr  { return nil }
func (c *scriptConn) RemoteAddr() net.Addr { return nil }
func (c *scriptConn) SetDeadline(t time.Time) error {
	c.readDeadline = !t.IsZero()
	c.writeDeadline, c.writeArmedAt = !t.IsZero(), c.tick
	return nil
}
func (c *scriptConn) SetReadDeadline(t time.Time) error { c.readDeadline = !t.IsZero(); return nil }
func (c *scriptConn) SetWriteDeadline(t time.Time) error {
	c.writeDeadline, c.writeArmedAt = !t.IsZero(), c.tick
	return nil
}

func newTestStream(conn net.Conn, nbuf int, parser Parser) *MessageStream {
	pool := &BufferPool{Empty: make(chan *bytes.Buffer, nbuf), Full: make(chan *bytes.Buffer, nbuf)}
	for i := 0; i < nbuf; i++ {
		pool.Empty <- bytes.NewBuffer(make([]byte, 0, 16))
	}
	return &MessageStream{
		conn:           conn,
		pool:           pool,
		parser:         parser,
		parserShutdown: make(chan bool, 1),
		Error:          make(chan error, 1),
		Inbound:        make(chan Message, 4),
		Outbound:       make(chan Message, 4),
		Shutdown:       make(chan bool, 1),
	}
}

// ---- C10: the de-framing state machine ----

// c10stream: an arbitrary byte stream of T bytes that is a sequence of well-formed frames
// (every length field, read where the grammar puts it, is at least 8) followed by an optional
// incomplete frame. The length fields are symbolic: where the frames end is decided by the
// solver, here (the reference de-framer, which looks at nothing but the length fields) and in
// the library. Returns the complete frames.
func c10stream(T int) (stream []byte, frames [][]byte) {
	stream = vr.Bytes("stream", T)
	off := 0
	for off+4 <= T {
		l := int(stream[off+2])<<8 | int(stream[off+3])
		vr.Assume(l >= 8)
		if off+l > T {
			break // incomplete trailing frame
		}
		frames = append(frames, stream[off:off+l])
		off += l
	}
	return
}

func c10checkDelivered(m *MessageStream, frames [][]byte) {
	vr.Assert(len(m.pool.Full) == len(frames), "one-buffer-per-complete-frame")
	for i := range frames {
		if len(m.pool.Full) == 0 {
			break
		}
		b := <-m.pool.Full
		vr.Assert(b.Len() == len(frames[i]), "frame-size-intact")
		vr.Assert(vr.BytesEq(b.Bytes(), frames[i]), "frame-bytes-intact-and-in-order")
	}
}

// all ways of cutting the stream into up to 3 reads (2 symbolic cut points, every position,
// including inside the 4-byte prefix), then a connection failure
func VerifC10_Deframe() {
	maxT := 17
	if vr.Thorough() {
		maxT = 24
	}
	T := vr.IntRange("streamlen", 8, maxT)
	stream, frames := c10stream(T)
	c1 := vr.IntRange("cut1", 0, T)
	c2 := vr.IntRange("cut2", c1, T)
	var chunks []int
	for _, c := range []int{c1, c2 - c1, T - c2} {
		if c > 0 {
			chunks = append(chunks, c)
		}
	}
	// the failure: a reset, or the peer closing (io.EOF) — at whatever point the stream ends,
	// frame boundary included
	var final error = &scriptErr{"connection reset by peer"}
	if vr.Bool("eof") {
		final = io.EOF
	}
	conn := &scriptConn{stream: stream, chunks: chunks, finalErr: final}
	m := newTestStream(conn, len(frames)+1, nil)
	m.inbound()
	c10checkDelivered(m, frames)
	vr.Assert(len(m.Error) == 1, "failure-published-once")
	vr.Assert(len(m.Shutdown) == 1, "shutdown-requested-once")
	if len(m.Error) == 1 {
		vr.Assert(<-m.Error == conn.finalErr, "the-connection's-error-is-what-is-published")
	}
}

// byte-at-a-time delivery (every read returns one byte): the extreme chunking
func VerifC10_DeframeByteWise() {
	T := vr.IntRange("streamlen", 8, 20)
	stream, frames := c10stream(T)
	chunks := make([]int, len(stream))
	for i := range chunks {
		chunks[i] = 1
	}
	conn := &scriptConn{stream: stream, chunks: chunks, finalErr: &scriptErr{"EOF"}}
	m := newTestStream(conn, len(frames)+1, nil)
	m.inbound()
	c10checkDelivered(m, frames)
	vr.Assert(len(m.Error) == 1 && len(m.Shutdown) == 1, "failure-published-once")
}

// a frame larger than a pool buffer's capacity (and than one read): 40 bytes into 16-byte buffers
func VerifC10_DeframeLargeFrame() {
	stream, frames := c10stream(48)
	vr.Assume(int(stream[2])<<8|int(stream[3]) >= 33) // the first frame is larger than two pool buffers
	cut := vr.IntRange("cut", 1, len(stream)-1)
	conn := &scriptConn{stream: stream, chunks: []int{cut, len(stream) - cut}, finalErr: &scriptErr{"EOF"}}
	m := newTestStream(conn, len(frames)+1, nil)
	m.inbound()
	c10checkDelivered(m, frames)
	vr.Assert(len(m.Error) == 1, "failure-published-once")
}

// frames of 256 bytes and more (the high byte of the length field matters), with the 4-byte
// length prefix split across two reads at every position
func VerifC10_DeframeLongFrameSplitHeader() {
	l := vr.IntRange("framelen", 256, 258)
	f := vr.Bytes("frame", l)
	f[2], f[3] = byte(l>>8), byte(l) // concrete here: the point is the prefix carried across reads
	g := vr.Bytes("next", 8)
	g[2], g[3] = 0, 8
	stream := make([]byte, 0, l+8)
	stream = append(append(stream, f...), g...)
	cut := vr.IntRange("cut", 1, 4)
	conn := &scriptConn{stream: stream, chunks: []int{cut, len(stream) - cut}, finalErr: io.EOF}
	m := newTestStream(conn, 3, nil)
	m.inbound()
	c10checkDelivered(m, [][]byte{f, g})
	vr.Assert(len(m.Error) == 1, "failure-published-once")
}

// a read that returns bytes together with an error (a timeout, or a reset) in the middle of the
// stream, more data afterwards: whatever is delivered is a prefix of the frames sent, each intact,
// and if not everything was delivered the failure was published
func VerifC10_DeframeReadWithError() {
	stream, frames := c10stream(16)
	c1 := vr.IntRange("cut1", 0, len(stream))
	c2 := vr.IntRange("cut2", c1, len(stream))
	conn := &scriptConn{stream: stream, chunks: []int{c1, c2 - c1, len(stream) - c2}, errAt: 1, finalErr: &scriptErr{"connection reset by peer"}}
	if vr.Bool("timeout") {
		conn.chunkErr = timeoutErr{}
	} else {
		conn.chunkErr = &scriptErr{"connection reset by peer"}
	}
	m := newTestStream(conn, len(frames)+1, nil)
	m.inbound()
	delivered := len(m.pool.Full)
	vr.Assert(delivered <= len(frames), "no-more-buffers-than-frames")
	for i := 0; i < delivered && i < len(frames); i++ {
		b := <-m.pool.Full
		vr.Assert(b.Len() == len(frames[i]), "frame-size-intact")
		vr.Assert(vr.BytesEq(b.Bytes(), frames[i]), "frame-bytes-intact-and-in-order")
	}
	vr.Assert(delivered == len(frames) || len(m.Error) == 1, "short-delivery-only-with-a-published-failure")
}

// an explicit local close ends the reader without publishing an error
func VerifC10_DeframeLocalClose() {
	stream, frames := c10stream(12)
	conn := &scriptConn{stream: stream, chunks: []int{len(stream)}, finalErr: &scriptErr{"read tcp 127.0.0.1:1->127.0.0.1:2: use of closed network connection"}}
	m := newTestStream(conn, len(frames)+1, nil)
	m.inbound()
	c10checkDelivered(m, frames)
	vr.Assert(len(m.Error) == 0 && len(m.Shutdown) == 0, "local-close-is-not-a-failure")
}

// ---- C10: one parser worker ----

type recMsg struct{ b []byte }

func (r *recMsg) Len() uint16                             { return uint16(len(r.b)) }
func (r *recMsg) MarshalBinary() (data []byte, err error) { return r.b, nil }
func (r *recMsg) UnmarshalBinary(data []byte) error       { return nil }

// copyParser returns a message owning a copy of the frame (what C12 establishes for the real
// parser), or rejects the frame when told to
type copyParser struct {
	calls  int
	reject bool
	stop   chan bool // told to stop once the frame has been seen (keeps the worker's select deterministic)
	pool   *BufferPool
	// buffers the reader could already refill while the parser is still looking at the frame
	emptyAtParse int
}

func (p *copyParser) Parse(b []byte) (Message, error) {
	p.calls++
	if p.pool != nil {
		p.emptyAtParse = len(p.pool.Empty)
	}
	if p.stop != nil {
		p.stop <- true
	}
	if p.reject {
		return nil, &scriptErr{"malformed"}
	}
	c := make([]byte, len(b))
	copy(c, b)
	return &recMsg{c}, nil
}

func VerifC10_ParserWorker() {
	var frame []byte
	if vr.Bool("jumbo") {
		// a frame larger than the pool's buffers (2048 bytes): the buffer has grown to hold it
		vr.ConcreteInputs(true)
		frame = vr.Bytes("frame", 3000)
		vr.ConcreteInputs(false)
	} else {
		frame = vr.Bytes("frame", vr.IntRange("framelen", 8, 12))
	}
	p := &copyParser{reject: vr.Bool("parser-rejects")}
	m := newTestStream(&scriptConn{}, 0, p)
	m.pool.Empty = make(chan *bytes.Buffer, 2)
	m.pool.Full = make(chan *bytes.Buffer, 2)
	buf := bytes.NewBuffer(make([]byte, 0, 16))
	buf.Write(frame)
	m.pool.Full <- buf
	p.stop = m.parserShutdown // the worker returns after handling the frame
	p.pool = m.pool
	m.parse()
	vr.Assert(p.emptyAtParse == 0, "buffer-not-handed-back-before-the-parser-is-done")
	vr.Assert(p.calls == 1, "parsed-exactly-once")
	if !p.reject {
		vr.Assert(len(m.Inbound) == 1, "exactly-one-message-delivered")
		if len(m.Inbound) == 1 {
			msg := (<-m.Inbound).(*recMsg)
			vr.Assert(vr.BytesEq(msg.b, frame), "delivered-message-is-the-frame")
		}
	}
	// whatever buffer goes back to the reader must be empty: the reader appends the next frame
	// to it (a frame the parser rejected must not stay in front of a later one)
	vr.Assert(len(m.pool.Empty) == 1, "buffer-returned-to-the-pool")
	if len(m.pool.Empty) == 1 {
		b := <-m.pool.Empty
		vr.Assert(b.Len() == 0, "returned-buffer-is-empty")
	}
}

// bufParser decodes a frame the way every library decoder holds opaque payload: util.Buffer
type bufParser struct{ stop chan bool }

func (p *bufParser) Parse(b []byte) (Message, error) {
	m := new(Buffer)
	err := m.UnmarshalBinary(b)
	p.stop <- true
	return m, err
}

// a delivered message stays unchanged while the next frame is received into the recycled buffer
func VerifC10_DeliveredMessageSurvivesRecycling() {
	l := vr.IntRange("framelen", 8, 12)
	frame1, frame2 := vr.Bytes("frame1", l), vr.Bytes("frame2", l)
	m := newTestStream(&scriptConn{}, 0, nil)
	m.parser = &bufParser{stop: m.parserShutdown}
	m.pool.Empty = make(chan *bytes.Buffer, 2)
	m.pool.Full = make(chan *bytes.Buffer, 2)
	buf := bytes.NewBuffer(make([]byte, 0, 16))
	buf.Write(frame1)
	m.pool.Full <- buf
	m.parse()
	vr.Assert(len(m.Inbound) == 1 && len(m.pool.Empty) == 1, "delivered-and-recycled")
	if len(m.Inbound) != 1 || len(m.pool.Empty) != 1 {
		return
	}
	msg := (<-m.Inbound).(*Buffer)
	// the reader takes the recycled buffer and receives the next frame into it
	b := <-m.pool.Empty
	b.Write(frame2)
	got, _ := msg.MarshalBinary()
	vr.Assert(len(got) == l && vr.BytesEq(got, frame1), "delivered-message-unchanged-by-the-next-frame")
}

// a shutdown signal with nothing queued: the worker returns and touches nothing
func VerifC10_ParserWorkerShutdown() {
	p := &copyParser{}
	m := newTestStream(&scriptConn{}, 1, p)
	m.parserShutdown <- true
	m.parse()
	vr.Assert(p.calls == 0 && len(m.Inbound) == 0 && len(m.pool.Empty) == 1, "shutdown:nothing-consumed-or-delivered")
}

// topology the composition argument needs: one reader, one writer, parse workers only read Full
func VerifC10_Topology() {
	vr.AssertStatic("go", "NewMessageStream", "inbound", 1, "exactly-one-reader-goroutine")
	vr.AssertStatic("send", "inbound", "Full", 1, "only-the-reader-fills-pool.Full")
	vr.AssertStatic("send", "parse", "Full", 0, "parser-workers-never-fill-pool.Full")
	vr.AssertStatic("send", "parse", "Inbound", 1, "each-worker-iteration-delivers-once")
}

// ---- C11: the writer ----

// failMsg: a message whose encoder reports an error (and returns no bytes)
type failMsg struct{}

func (f *failMsg) Len() uint16                             { return 8 }
func (f *failMsg) MarshalBinary() (data []byte, err error) { return nil, &scriptErr{"cannot encode"} }
func (f *failMsg) UnmarshalBinary(data []byte) error       { return nil }

// lenMsg: a message whose Len() is not the size of its encoding (a payload above 65535 bytes
// wraps the 16-bit size): what goes on the wire is the encoding
type lenMsg struct {
	b []byte
	l uint16
}

func (r *lenMsg) Len() uint16                             { return r.l }
func (r *lenMsg) MarshalBinary() (data []byte, err error) { return r.b, nil }
func (r *lenMsg) UnmarshalBinary(data []byte) error       { return nil }

// what reached the wire, in order (empty writes put nothing on it)
func (c *scriptConn) wire() []byte {
	n := 0
	for _, w := range c.writes {
		n += len(w)
	}
	out := make([]byte, 0, n)
	for _, w := range c.writes {
		out = append(out, w...)
	}
	return out
}

func VerifC11_Outbound() {
	n := vr.IntRange("nmsgs", 0, 3)
	conn := &scriptConn{}
	m := newTestStream(conn, 0, nil)
	var want [][]byte
	total := 0
	for i := 0; i < n; i++ {
		var b []byte
		if i == 1 && vr.Bool("largest") {
			// the largest frame a 16-bit length field can describe (content concrete: only its size matters)
			vr.ConcreteInputs(true)
			b = vr.Bytes("msg", 65535)
			vr.ConcreteInputs(false)
		} else if i >= 1 && vr.Bool("encoder-fails") {
			// a message that cannot be encoded has no encoding: it puts nothing on the wire, and
			// in particular not a second copy of an earlier message
			m.Outbound <- &failMsg{}
			continue
		} else if vr.Bool("len-differs") {
			b = vr.Bytes("msg", vr.IntRange("msglen", 8, 12))
			want = append(want, b)
			total += len(b)
			m.Outbound <- &lenMsg{b, vr.U16("reported-len")}
			continue
		} else {
			b = vr.Bytes("msg", vr.IntRange("msglen", 8, 12))
		}
		want = append(want, b)
		total += len(b)
		m.Outbound <- &recMsg{b}
	}
	close(m.Outbound)
	m.outbound()
	// every non-empty write is one whole encoding, in submission order
	k := 0
	for _, w := range conn.writes {
		if len(w) == 0 {
			continue
		}
		vr.Assert(k < len(want), "no-write-without-a-message")
		if k < len(want) {
			vr.Assert(len(w) == len(want[k]), "write-is-the-whole-encoding")
			vr.Assert(vr.BytesEq(w, want[k]), "write-is-the-message's-encoding-in-submission-order")
		}
		k++
	}
	vr.Assert(k == len(want), "every-encodable-message-written-once")
	vr.Assert(len(conn.wire()) == total, "wire-is-exactly-the-encodings")
}

// The writer leaves the read side of the connection alone: after a message was sent, a peer that
// stays silent is not turned into a connection failure (which would close the connection and
// lose every later submission). The scripted connection honours deadlines the way net.Conn
// documents them: a read with the read deadline armed and no data fails with a timeout; without
// one it would block for ever, which the script ends as a local close.
func VerifC11_WriterLeavesReadSideAlone() {
	conn := &scriptConn{honourDeadlines: true, finalErr: &scriptErr{"read tcp 127.0.0.1:1->127.0.0.1:2: use of closed network connection"}}
	m := newTestStream(conn, 1, nil)
	m.Outbound <- &recMsg{vr.Bytes("msg", 8)}
	close(m.Outbound)
	m.outbound()
	vr.Assert(len(conn.writes) == 1, "message-written")
	m.inbound() // the peer sends nothing
	vr.Assert(len(m.Error) == 0 && len(m.Shutdown) == 0, "silent-peer-after-a-send-is-not-a-failure")
}

// submissions spread over time (11 s of logical time between one write and the next submission,
// more than the library's 10 s write timeout) on a healthy, deadline-honouring connection: every
// message is written, and the writer does not end the process
func VerifC11_IdleGapsBetweenMessages() {
	n := vr.IntRange("nmsgs", 1, 3)
	conn := &scriptConn{honourDeadlines: true, gapAfterWrite: 11}
	m := newTestStream(conn, 0, nil)
	var want [][]byte
	for i := 0; i < n; i++ {
		b := vr.Bytes("msg", 8)
		want = append(want, b)
		m.Outbound <- &recMsg{b}
	}
	close(m.Outbound)
	vr.FatalIsViolation(true)
	m.outbound()
	vr.FatalIsViolation(false)
	vr.Assert(len(conn.writes) == n, "every-message-written-despite-idle-gaps")
	for i := range want {
		if i < len(conn.writes) {
			vr.Assert(vr.BytesEq(conn.writes[i], want[i]), "write-is-the-message's-encoding-in-submission-order")
		}
	}
}

func VerifC11_Topology() {
	vr.AssertStatic("go", "NewMessageStream", "outbound", 1, "exactly-one-writer-goroutine")
	vr.AssertStatic("invoke", "", "Write", 1, "conn.Write-has-one-call-site")
	vr.AssertStatic("invoke", "outbound", "Write", 1, "that-call-site-is-in-the-writer")
}
