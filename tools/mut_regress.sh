#!/bin/bash
# tools/mut_regress.sh <Cxx>... : re-evaluate every stored seeded change of the given properties against
# the current harnesses and engine (scratch worktree per change); prints one line per change and
# updates the stored check_result. A change that is no longer detected shows as check_exit=0.
for P in "$@"; do
  for d in /verif/seeded/$P-*; do
    [ -d "$d" ] || continue
    out=$(/verif/tools/mut_eval.sh "$P" "$d" quick)
    line=$(echo "$out" | grep '^RESULT')
    echo "$(basename $d) $line"
    python3 - "$d/meta.json" "$line" <<'PY'
import json,sys,re
p=sys.argv[1]; m=json.load(open(p)); kv=dict(re.findall(r'(\w+)=(\S+)',sys.argv[2]))
if 'check_exit' in kv:
    m['check_result']={'tier':'quick','exit':int(kv['check_exit']),'violations':int(kv['violations']),'secs':int(kv['secs']),'detected':kv['check_exit']=='1'}
    json.dump(m,open(p,'w'),indent=1)
PY
  done
done
