#!/bin/bash
# tools/mut_eval.sh <Cxx> <m-dir> [tier]
# Confirms a seeded change (demo passes clean / fails patched / existing tests pass) in a scratch
# worktree, then runs ./check's engine against that worktree (never against /repo) and reports.
set -u
P="$1"; M="$2"; TIER="${3:-quick}"
export GOFLAGS=-mod=mod GOPROXY=off GOSUMDB=off GOTOOLCHAIN=local
WT=$(mktemp -d /tmp/muteval.XXXXXX); VV=$(mktemp -d /tmp/mutvv.XXXXXX)
cleanup() { git -C /repo worktree remove --force "$WT" >/dev/null 2>&1; rm -rf "$WT" "$VV"; }
trap cleanup EXIT
git -C /repo worktree add --detach "$WT" HEAD >/dev/null 2>&1 || { echo "worktree failed"; exit 3; }
dest=$(python3 -c "import json;print(json.load(open('$M/meta.json'))['demo_dest'])")
cmd=$(python3 -c "import json;print(json.load(open('$M/meta.json'))['demo_cmd'])")
cp "$M/demo_test.go" "$WT/$dest"
( cd "$WT" && GOFLAGS= eval "$cmd" ) >/dev/null 2>&1; clean_demo=$?
( cd "$WT" && { git apply "$M/patch.diff" 2>/dev/null || git apply --3way "$M/patch.diff" 2>/dev/null || patch -p1 -F3 -s < "$M/patch.diff"; } ) || { echo "RESULT $P $M patch-does-not-apply"; exit 3; }
( cd "$WT" && git reset -q 2>/dev/null; find . -name '*.orig' -delete )
( cd "$WT" && GOFLAGS= go build ./... ) >/dev/null 2>&1; build=$?
( cd "$WT" && GOFLAGS= eval "$cmd" ) >/dev/null 2>&1; mut_demo=$?
rm -f "$WT/$dest"
( cd "$WT" && GOFLAGS= go test -vet=off -count=1 ./openflow13/ ./protocol/ ) >/dev/null 2>&1; suite=$?
cp -r /verif/harness "$VV/harness"; ln -s /verif/known_findings.json "$VV/known_findings.json"
t0=$(date +%s)
/verif/bin/symgo check -j ${MUT_J:-16} -prop "$P" -tier "$TIER" -repo "$WT" -verif "$VV" > "$VV/out.txt" 2> "$VV/err.txt"; rc=$?
t1=$(date +%s)
nviol=$(grep -c '^VIOLATION' "$VV/out.txt")
echo "RESULT $P $(basename $M) clean_demo=$clean_demo build=$build mutant_demo=$mut_demo suite=$suite check_exit=$rc violations=$nviol secs=$((t1-t0))"
grep -h '^violation:' -A1 "$VV/err.txt" | head -8
grep -h '^ENGINE-MISMATCH\|^INCONCLUSIVE' "$VV/out.txt" | head -5
