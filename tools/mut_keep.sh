#!/bin/bash
# tools/mut_keep.sh <Cxx> <m-dir> [tier] : evaluate a seeded change and, if confirmed (demo passes clean,
# fails patched, builds, existing suite passes), store it under /verif/seeded/<Cxx>-<m>/ with the check outcome.
P="$1"; M="$2"; TIER="${3:-quick}"
out=$(/verif/tools/mut_eval.sh "$P" "$M" "$TIER")
echo "$out"
line=$(echo "$out" | grep '^RESULT')
if echo "$line" | grep -q 'clean_demo=0 build=0 mutant_demo=1 suite=0'; then
  id="$P-$(basename $(dirname $M) | sed 's/^w\([0-9]\).*/w\1/;s/^C.*//')$(basename $M)"; d=/verif/seeded/$id; mkdir -p $d
  cp "$M/patch.diff" "$M/demo_test.go" $d/
  python3 - "$M/meta.json" "$d/meta.json" "$line" "$TIER" <<'PY'
import json,sys,re
m=json.load(open(sys.argv[1])); line=sys.argv[3]
kv=dict(re.findall(r'(\w+)=(\S+)',line))
m['breaks_property']=m.get('property')
m['confirmed']={'demo_passes_on_clean_tree':kv['clean_demo']=='0','demo_fails_with_change':kv['mutant_demo']!='0','builds':kv['build']=='0','existing_suite_passes_with_change':kv['suite']=='0'}
m['what_i_ran']=['tools/mut_eval.sh '+m['property']+' <dir> '+sys.argv[4]+'  (scratch worktree of /repo HEAD: demo on clean tree, git apply patch.diff, go build ./..., demo, go test ./openflow13/ ./protocol/, then symgo check -repo <worktree>)']
m['check_result']={'tier':sys.argv[4],'exit':int(kv['check_exit']),'violations':int(kv['violations']),'secs':int(kv['secs']),'detected':kv['check_exit']=='1'}
json.dump(m,open(sys.argv[2],'w'),indent=1)
PY
else
  echo "NOT-CONFIRMED $P $M"
fi
