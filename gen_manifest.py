#!/usr/bin/env python3
# Regenerates MANIFEST.json from the table below (kept in one place so it stays valid).
import json, sys
claimed = {
 "C16": ("bit-range helpers: every assertion is one SMT query over the full stated domain (all 528 ranges; all offset/width pairs) on the real SSA of the helpers — loop-free code at full bit-width, so the bounded verdict covers the whole domain of the statement", "4 C16"),
 "C18": ("one inductive step of each of the 16 builder operations from an arbitrary (data, mask) pair of 32-bit words, decided symbolically on the real SSA, plus the base case and all call sequences up to length 3 against a per-flag reference; induction over sequence length is the meta-step", "4 C18"),
 "C19": ("each Put*/Read* primitive executed symbolically from an arbitrary encoder/decoder state (bounded buffer sizes), alignment over the full 31-bit base/offset domain, typed write-then-read sequences up to 3 (quick) / 4 (thorough) operations, Header.Decode on every length 0..12 with real defer/recover semantics", "4 C19"),
}
claimed["C15"] = ("registry: every registered name x mask x three spellings executed on the real lookup and compared with a reference width table (concrete enumeration, exhaustive over the registry); pack/unpack inverse decided by SMT for all 2^32 header words (loop-free, full width); independence by exact alias analysis of the concrete heap plus symbolic overwrite of every field", "4 C15")
claimed["C08"] = ("every packet-header decoder executed symbolically on an arbitrary buffer of every length up to the per-decoder bound (all 2^(8N) contents decided by SMT): no feasible path panics, every library loop exits within N+2 iterations (unwinding assertion), no single allocation exceeds 64 KiB + 16 N", "4 C08")
claimed["C06"] = ("every encodable kind built through its constructors with symbolic field values and executed symbolically: reported size == bytes produced (decided by SMT for all field values); every container (match, set-field, reg_load2, instruction, bucket, group-mod, flow-mod, packet-out, conntrack, learn, vendor, bundle, multipart; Ethernet, IPv4, IPv6 + extension headers, hop-by-hop, IGMPv3, DHCP) holds its children whole, in order, with zero padding, for <= 2 (quick) / 3 (thorough) real children and for generic children of arbitrary size 0..16/24 with arbitrary bytes", "4 C06")
claimed["C01"] = ("every controller-originated message kind built through the API with symbolic field values (all 256 flow-mod commands, all 65536 group-mod commands), lists of <= 2 elements, payload <= 8/16 B: version byte, type code, header length == bytes == Len() decided by SMT; bundle-add wrapping each kind checks the embedded frame as well", "4 C01")
claimed["C13"] = ("every encodable kind (44 match fields, 27 actions, instructions, buckets, learn specs, 21 message kinds, bundle/vendor wrappers, 16 packet-header kinds, IPv4 with unset IHL) under every sequence of <= 3 (quick) / 4 (thorough) Len/MarshalBinary calls: all sizes agree, all encodings agree byte for byte, size == len(encoding), decided by SMT over all field values", "4 C13")
claimed["C09"] = ("every packet-header kind built well-formed with symbolic field values (all values of every packed 8/16/32-bit group at once): encode, decode, compare fields, re-encode, size == bytes consumed; packed groups compared with the RFC bit layouts; payload decoder chosen by ethertype (tagged and untagged forms of the same symbolic frame), IPv4 protocol and IPv6 next-header chains (8 chain orders quick / 16 thorough); DHCP and LLDP TLV round trips; payload <= 8/16 B, <= 2/3 options, sources, records; header-extension lengths 0,1,31,32(,255)", "4 C09")
claimed["C05"] = ("every two-way kind built through its constructors with symbolic fields (44 match-field kinds, 27 action kinds incl. nested conntrack / learn / nat, 4 instruction kinds, buckets, matches, learn specs, 23 top-level message kinds through Parse, group-mod / packet-out / port-mod / multipart requests through their decoders): encode, decode with 0 or 8 arbitrary trailing bytes, decoded extent == encoded size, re-encoding == bytes, exported fields equal (after the documented normalisations), decided by SMT over all field values", "4 C05")
claimed["C07"] = ("Parse executed symbolically on: arbitrary buffers of every length 0..20/32; frames of every type 0..30 whose length field equals the buffer (8..24/40 B); concrete-context/symbolic-region families for match, packet-in, instruction, action (every standard type), Nicira action (every subtype 0..48, conntrack and learn bodies), multipart reply/request bodies by type, vendor payloads by experimenter type (bundle-add wrapping a second frame), hello elements and the fixed-layout messages; the library's own encodings of 23 message kinds, all 27 action kinds and all match-field kinds truncated at every offset and with each byte (thorough: each byte pair) replaced by an arbitrary value. Verdicts by SMT: no panic escapes Parse, a message or an error is returned, every library loop exits within N+2 iterations, no allocation above 64 KiB + 16 N", "4 C07")
claimed["C12"] = ("for every parsed frame (library encodings of 23 message kinds in all builder shapes, each of the 27 action kinds, each match-field kind masked and unmasked, packet-in carrying 9 payload stacks incl. IPv4 options and IPv6 extension headers, bundle-add with flow-mod and property, and arbitrary framed bytes <= 24/40 B that parse): the re-encoding after replacing every cell of the input buffer by fresh symbols equals the re-encoding before (SMT), and the concrete heap reachable from the message shares no non-empty array with the buffer", "4 C12")
claimed["C02"] = ("an independent length-only walker written from the OpenFlow 1.3.5 / nicira-ext.h grammar (match and OXM TLVs, instructions, standard and Nicira actions incl. conntrack nesting, learn specs, nat presence bitmap, set-field / reg_load2 padding, buckets, hello elements, multipart requests, vendor messages, bundled messages and properties) is executed symbolically on the encoding of every controller-originated message kind, every action kind in all variants, every match-field kind, richer flow-mod / group-mod / packet-out shapes, bundle-add wrapping each kind, builder histories with prepend, late-growing children and nat setters in any order with sizing in between: every declared length, alignment, zero padding and type code rule holds and the walk ends exactly at the end (SMT over all field values)", "4 C02")
claimed["C03"] = ("reference writers transcribed from OpenFlow 1.3.5 and nicira-ext.h are fed the same constructor arguments as the library and the encodings compared byte for byte (one SMT query per element, all field values at once): all 44 match-field kinds with and without mask, matches, all 27 action kinds in every variant (64 nat range subsets, flag combinations, conntrack zone forms and nesting, 5 learn-spec kinds with n_bits 1..1023), instructions incl. prepend order, flow-mod (all commands), group-mod with buckets, packet-out, port-mod, set-config, multipart requests, Nicira and bundle vendor messages", "4 C03")
claimed["C04"] = ("reference writers (OpenFlow 1.3.5 / nicira-ext.h layouts) produce the bytes of every switch-originated kind from symbolic field values - hello with version-bitmap elements, error, experimenter error, echo, barrier reply, features reply, get-config reply, packet-in (match + Ethernet frame + payload), flow-removed, port-status with port description, multipart replies desc / flow (match, instructions, actions) / aggregate / table / port / queue, tlv-table reply, bundle control reply - Parse is executed symbolically on them and the dynamic type and every exported field, list element and payload byte of the result is compared with what was written (SMT over all values; lists <= 2/3 elements)", "4 C04")
claimed["C17"] = ("NewMatchField executed symbolically (math/big modelled as sign + 256-bit magnitude on the real struct layout, reflect from the concrete dynamic type) for uint32 -> 4-byte register, uint64 -> 8-byte metadata, int64 -> 8-byte tunnel id, []byte/HardwareAddr -> 6-byte Ethernet address with data at full width and window offset/width symbolic in [-2,130], shift flag both ways; *big.Int -> 16-byte xxreg / ct_label with 128-bit symbolic data over a list of concrete windows; unmasked forms; one SMT verdict per assertion: value placed at the window, mask exactly the window, no value bit outside the mask, sizes == field width, register form == NewRegMatchField bytes, every unrepresentable input (negative, too wide, window outside the field) is an error and never a panic or unbounded allocation, caller's []byte / *big.Int unmodified", "4 C17")
claimed["C10"] = ("the reader (MessageStream.inbound) and one parser-worker iteration (MessageStream.parse) executed symbolically as sequential code on a directly constructed stream with a scripted net.Conn and FIFO-modelled channels: for every byte stream of 8..17/24 bytes that is a sequence of well-formed frames plus an optional incomplete frame (length fields symbolic, so frame boundaries are decided by the solver) and every partition into <= 3 reads (plus byte-at-a-time reads, a frame larger than two pool buffers, a local close), the buffers handed over are exactly the complete frames in order, nothing of an incomplete frame is handed over, the failure is published once; the worker delivers exactly the parsed frame once and returns the reset buffer afterwards; goroutine/channel topology checked on the SSA. Scheduler interleavings are NOT explored: composition rests on Go channel semantics (trusted)", "4 C10")
claimed["C11"] = ("the writer (MessageStream.outbound) executed symbolically on 0..3 queued messages of symbolic content with a recording net.Conn: one Write per message, each the whole encoding, in submission order; SSA structure: exactly one writer goroutine and a single conn.Write call site inside it. Producer/writer interleavings are NOT explored: non-interleaving and per-producer order follow from a single writer draining one FIFO channel (Go channel semantics, trusted)", "4 C11")
pending = {}
allp = [json.loads(l)["id"] for l in open("/verif/properties.jsonl")]
TRUST = "go/ssa lowering, gc compiler, Go runtime, SMT solvers (z3 4.8.12 decides; z3 5.1.0 and cvc5 1.0 cross-check sampled verdict queries), the environment stubs listed in each evidence file; nothing outside the per-harness bounds in DESIGN.md §4"
checks = []
for pid in allp:
    if pid in claimed:
        text, ref = claimed[pid]
        checks.append({
            "property_id": pid,
            "quick_cmd": f"./check {pid} quick",
            "thorough_cmd": f"./check {pid} thorough",
            "evidence_file": f"/verif/evidence/{pid}.json",
            "replay_cmd_template": "./check replay {path}",
            "engine": "symgo",
            "level_claimed": {"category": "model_checking", "text": text, "design_ref": "DESIGN.md §" + ref},
            "level_note": TRUST,
            "technique": "bounded symbolic execution of the real go/ssa into SMT (bit-vectors), verdict by z3, counterexamples replayed natively",
        })
na = []
NA_REASONS = json.load(open("/verif/na_reasons.json"))
for pid in allp:
    if pid not in claimed:
        na.append({"property_id": pid, "reason": NA_REASONS.get(pid, "harnesses for this property are not built yet in this round; see DESIGN.md §4 for the plan")})
m = {
 "version": 1,
 "setup_cmd": "cd /verif/engine && GOFLAGS=-mod=mod GOPROXY=off GOSUMDB=off GOTOOLCHAIN=local go build -o ../bin/symgo . && ../bin/symgo selftest",
 "hooks": {
   "guard": "verif",
   "enable": "harness files (//go:build verif) are injected by overlay: go/packages Overlay for the symbolic engine, go test -tags verif -overlay for native replay; /repo carries no hook code",
   "baseline_off_cmd": "cd /repo && go test -json -vet=off -count=1 -timeout 25m ./...",
   "source_commits": [],
   "add_only": True,
 },
 "engines": [{"name": "symgo", "path": "/verif/engine", "serves_properties": sorted(claimed), "kind_free_text": "forking symbolic interpreter over go/ssa of /repo → SMT-LIB2 bit-vector queries (z3 -in, push/pop); native replay of every model through the same harness source"}],
 "checks": checks,
 "not_applicable": na,
 "notes": "exit 0 held / 1 VIOLATION (natively replayed) / 2 INCONCLUSIVE or ENGINE-MISMATCH; known findings in /verif/known_findings.json",
}
json.dump(m, open("/verif/MANIFEST.json", "w"), indent=1)
print("claimed:", sorted(claimed), "na:", [x["property_id"] for x in na])
